#include "specdefs.h"
#include "ios_min.h"
static inline void ios_put_cstr(ios_t *s, const char *x) { (void)s; (void)x; }
uint32_t g_ctx_sigcreationtime, g_ctx_sigexpirationtime, g_ctx_keyexpirationtime;
int g_ctx_pkalgo, g_ctx_hashalgo, g_ctx_type, g_ctx_version, g_ctx_revcode; _Bool g_ctx_revocable, g_ctx_exportable;
size_t g_new_calls;
unsigned long nondet_ulong(void); unsigned nondet_unsigned(void); unsigned char nondet_uchar(void); _Bool nondet_bool(void);
/* libgcrypt: opaque */
enum { GPG_ERR_BAD_SIGNATURE = 8 };
static inline unsigned gcry_error(int c) { return (unsigned)c; }
static inline gcry_mpi_t gcry_mpi_new(unsigned nbits) { (void)nbits; return (gcry_mpi_t)nondet_ulong(); }
static inline gcry_mpi_t gcry_mpi_set(gcry_mpi_t w, gcry_mpi_t u) { (void)u; return w; }
static inline unsigned gcry_mpi_get_nbits(gcry_mpi_t a) { (void)a; return nondet_unsigned(); }
#define gcry_sexp_build(sexp, erroff, ...) (*(sexp) = (gcry_sexp_t)nondet_ulong(), *(erroff) = nondet_ulong(), nondet_unsigned())
/* sizes-only containers */
static inline void notations_t__ctor_0(notations_t *v) { v->data = 0; v->size = 0; v->cap = 0; }
static inline void vec_vec_u8__ctor_0(vec_vec_u8 *v) { v->data = 0; v->size = 0; v->cap = 0; }
static inline size_t vec_vec_u8__size(vec_vec_u8 *v) { return v->size; }
static inline void vec_vec_u8__resize(vec_vec_u8 *v, size_t n) { v->size = n; }
vec_u8 vec_vec_u8__cell;   /* scratch element: an arbitrary octet string of at most 2^32 octets */
static inline vec_u8 *vec_vec_u8__op_index(vec_vec_u8 *v, size_t i)
{ __CPROVER_assert(i < v->size, "vector index in range"); __CPROVER_assume(vec_vec_u8__cell.size <= ((size_t)1 << 32) && vec_vec_u8__cell.cap == TCAP); return &vec_vec_u8__cell; }
static inline void vec_revkey__ctor_0(vec_revkey *v) { v->data = 0; v->size = 0; v->cap = 0; }
