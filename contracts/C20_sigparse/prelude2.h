/* parts that need the class and context types */
static inline void tmcg_openpgp_packet_ctx_t__ctor_0(tmcg_openpgp_packet_ctx_t *c) { (void)c; }
static inline _Bool OctetsCompareZero(vec_u8 *v) { (void)v; return nondet_bool(); }
/* ASSUMED (the packet layer is under contract in C12_tags; tag 2 itself is not): one packet is consumed from a non-empty
 * input (progress proved for PacketDecode in C12_tags), the context is arbitrary within its type invariant: the
 * counted arrays hold their counts, a non-empty hashed area owns its buffer */
static inline tmcg_openpgp_byte_t PacketDecode7(vec_u8 *in, int verbose, tmcg_openpgp_packet_ctx_t *out, vec_u8 *cur, notations_t *n, vec_vec_u8 *e, vec_vec_u8 *r)
{ (void)verbose;
  __CPROVER_assert(in->size >= 1, "PacketDecode is called on non-empty input");
  { tmcg_openpgp_packet_ctx_t h; *out = h; }
  __CPROVER_assume(out->keyflagslen <= sizeof(out->keyflags) && out->featureslen <= sizeof(out->features) && out->psalen <= sizeof(out->psa) &&
                   out->phalen <= sizeof(out->pha) && out->pcalen <= sizeof(out->pca) && out->paalen <= sizeof(out->paa) && out->hspdlen <= 65535);
  out->hspd = 0; if (out->hspdlen) { out->hspd = (tmcg_openpgp_byte_t *)malloc(out->hspdlen); __CPROVER_assume(out->hspd != 0); }
  size_t ns = nondet_ulong(); __CPROVER_assume(ns < in->size); in->size = ns;
  cur->size = nondet_ulong(); __CPROVER_assume(cur->size <= ((size_t)1 << 32));
  n->size = nondet_ulong(); e->size = nondet_ulong(); r->size = nondet_ulong();
  g_ctx_sigcreationtime = out->sigcreationtime; g_ctx_sigexpirationtime = out->sigexpirationtime; g_ctx_keyexpirationtime = out->keyexpirationtime;
  g_ctx_pkalgo = (int)out->pkalgo; g_ctx_hashalgo = (int)out->hashalgo; g_ctx_type = (int)out->type; g_ctx_version = out->version;
  g_ctx_revcode = (int)out->revocationcode; g_ctx_revocable = out->revocable; g_ctx_exportable = out->exportablecertification;
  return nondet_uchar(); }
static inline void PacketContextRelease(tmcg_openpgp_packet_ctx_t *c) { if (c->hspdlen) free(c->hspd); }   /* the part of the real release that concerns the modelled buffer */
/* operator new + constructor (the constructors are the real ones, extracted below) */
static inline TMCG_OpenPGP_Signature *sig_alloc(void) { TMCG_OpenPGP_Signature *p = (TMCG_OpenPGP_Signature *)malloc(sizeof(TMCG_OpenPGP_Signature)); __CPROVER_assume(p != 0); g_new_calls++; return p; }
#define TMCG_OpenPGP_Signature__new_25(...) ({ TMCG_OpenPGP_Signature *__p = sig_alloc(); TMCG_OpenPGP_Signature__ctor_rsa(__p, __VA_ARGS__); __p; })
#define TMCG_OpenPGP_Signature__new_26(...) ({ TMCG_OpenPGP_Signature *__p = sig_alloc(); TMCG_OpenPGP_Signature__ctor_dsa(__p, __VA_ARGS__); __p; })
