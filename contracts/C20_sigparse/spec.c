//@ function SignatureParse
//@ noloopcontracts
//@ contract
/* BOUNDED (outer loop unwound: at most MAXPK packets per input; inner copy loops closed by invariants).
 * C20: the signature object handed back carries exactly the fields of the decoded signature packet -- creation and
 * EXPIRATION time, algorithms, type, version, flags -- and no key expiration time; CheckValidity (C20_sig) then
 * judges expiry on these values.  C12: memory safe for every context the packet decoder can produce. */
__CPROVER_requires(__CPROVER_is_fresh(in, sizeof(*in)) && in->cap == TCAP && in->size <= MAXPK && __CPROVER_is_fresh(sig, sizeof(*sig)) && g_new_calls == 0)
__CPROVER_assigns(*sig, g_new_calls, g_ctx_sigcreationtime, g_ctx_sigexpirationtime, g_ctx_keyexpirationtime, g_ctx_pkalgo, g_ctx_hashalgo, g_ctx_type, g_ctx_version, g_ctx_revcode, g_ctx_revocable, g_ctx_exportable, vec_vec_u8__cell.size)
__CPROVER_ensures(__CPROVER_return_value ==> (*sig != 0 && g_new_calls == 1))
__CPROVER_ensures(__CPROVER_return_value ==> ((*sig)->creationtime == (time_t)g_ctx_sigcreationtime && (*sig)->expirationtime == (time_t)g_ctx_sigexpirationtime && (*sig)->keyexpirationtime == 0))
__CPROVER_ensures(__CPROVER_return_value ==> ((int)(*sig)->pkalgo == g_ctx_pkalgo && (int)(*sig)->hashalgo == g_ctx_hashalgo && (int)(*sig)->type == g_ctx_type && (*sig)->version == g_ctx_version &&
   (int)(*sig)->revcode == g_ctx_revcode && (*sig)->revocable == g_ctx_revocable && (*sig)->exportable == g_ctx_exportable))
/* the object is valid in libgcrypt's eyes (Good) whenever it is handed back */
__CPROVER_ensures(__CPROVER_return_value ==> (*sig)->ret == 0)
//@ loop 2
__CPROVER_assigns(i, issuer.size)
__CPROVER_loop_invariant(i <= sizeof(ctx.issuer) && issuer.size == i)
__CPROVER_decreases(sizeof(ctx.issuer) - i)
//@ loop 3
__CPROVER_assigns(i, issuerfpr.size)
__CPROVER_loop_invariant(i <= 20 && issuerfpr.size == i)
__CPROVER_decreases(20 - i)
//@ loop 4
__CPROVER_assigns(i, issuerfpr.size)
__CPROVER_loop_invariant(i <= 32 && issuerfpr.size == i)
__CPROVER_decreases(32 - i)
//@ loop 5
__CPROVER_assigns(i, issuer.size)
__CPROVER_loop_invariant(i <= 8 && issuer.size == i)
__CPROVER_decreases(8 - i)
//@ loop 6
__CPROVER_assigns(i, hspd.size)
__CPROVER_loop_invariant(i <= ctx.hspdlen && hspd.size == i)
__CPROVER_decreases(ctx.hspdlen - i)
//@ loop 7
__CPROVER_assigns(i, flags.size)
__CPROVER_loop_invariant(i <= ctx.keyflagslen && flags.size == i)
__CPROVER_decreases(ctx.keyflagslen - i)
//@ loop 8
__CPROVER_assigns(i, features.size)
__CPROVER_loop_invariant(i <= ctx.featureslen && features.size == i)
__CPROVER_decreases(ctx.featureslen - i)
//@ loop 9
__CPROVER_assigns(i, psa.size)
__CPROVER_loop_invariant(i <= ctx.psalen && psa.size == i)
__CPROVER_decreases(ctx.psalen - i)
//@ loop 10
__CPROVER_assigns(i, pha.size)
__CPROVER_loop_invariant(i <= ctx.phalen && pha.size == i)
__CPROVER_decreases(ctx.phalen - i)
//@ loop 11
__CPROVER_assigns(i, pca.size)
__CPROVER_loop_invariant(i <= ctx.pcalen && pca.size == i)
__CPROVER_decreases(ctx.pcalen - i)
//@ loop 12
__CPROVER_assigns(i, paa.size)
__CPROVER_loop_invariant(i <= ctx.paalen && paa.size == i)
__CPROVER_decreases(ctx.paalen - i)
//@ end

//@ function TMCG_OpenPGP_Signature__ctor_rsa
//@ loop 1
__CPROVER_assigns(i, vec_vec_u8__cell.size)
__CPROVER_loop_invariant(i <= embeddedsigs_in->size && self->embeddedsigs.size == embeddedsigs_in->size)
__CPROVER_decreases(embeddedsigs_in->size - i)
//@ loop 2
__CPROVER_assigns(i, vec_vec_u8__cell.size)
__CPROVER_loop_invariant(i <= recipientfprs_in->size && self->recipientfprs.size == recipientfprs_in->size)
__CPROVER_decreases(recipientfprs_in->size - i)
//@ loop 3
__CPROVER_assigns(i, vec_vec_u8__cell.size)
__CPROVER_loop_invariant(i <= attestedcerts_in->size && self->attestedcerts.size == attestedcerts_in->size)
__CPROVER_decreases(attestedcerts_in->size - i)
//@ end

//@ function TMCG_OpenPGP_Signature__ctor_dsa
//@ loop 1
__CPROVER_assigns(i, vec_vec_u8__cell.size)
__CPROVER_loop_invariant(i <= embeddedsigs_in->size && self->embeddedsigs.size == embeddedsigs_in->size)
__CPROVER_decreases(embeddedsigs_in->size - i)
//@ loop 2
__CPROVER_assigns(i, vec_vec_u8__cell.size)
__CPROVER_loop_invariant(i <= recipientfprs_in->size && self->recipientfprs.size == recipientfprs_in->size)
__CPROVER_decreases(recipientfprs_in->size - i)
//@ loop 3
__CPROVER_assigns(i, vec_vec_u8__cell.size)
__CPROVER_loop_invariant(i <= attestedcerts_in->size && self->attestedcerts.size == attestedcerts_in->size)
__CPROVER_decreases(attestedcerts_in->size - i)
//@ end

