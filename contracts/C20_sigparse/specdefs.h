#ifndef C20_SIGPARSE_SPECDEFS_H
#define C20_SIGPARSE_SPECDEFS_H
#define TCAP ((size_t)1 << 33)
#define MAXPK 1   /* bounded stand-in: one packet (one round of the outer packet loop) per input */
/* ghost record of the packet context the (assumed) packet decoder produced for the last packet */
extern uint32_t g_ctx_sigcreationtime, g_ctx_sigexpirationtime, g_ctx_keyexpirationtime;
extern int g_ctx_pkalgo, g_ctx_hashalgo, g_ctx_type, g_ctx_version, g_ctx_revcode; extern _Bool g_ctx_revocable, g_ctx_exportable;
extern size_t g_new_calls;
#endif
