typedef struct gcry_sexp *gcry_sexp_t;
typedef unsigned char tmcg_openpgp_byte_t;
typedef struct { void *data; size_t size; size_t cap; } vec_vec_u8;
typedef struct { void *data; size_t size; size_t cap; } notations_t;
typedef struct { void *data; size_t size; size_t cap; } vec_revkey;
