void h_sigparse(void) { vec_u8 *in; int verbose; TMCG_OpenPGP_Signature **sig; _Bool r = SignatureParse(in, verbose, sig);
  __CPROVER_assert(!r, "REACHABILITY-CANARY (must fail): a signature is parsed"); }
