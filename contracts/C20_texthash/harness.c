/* RFC 4880 5.2.4: "the document is canonicalized by converting line endings to <CR><LF>".  Reference, written from
 * that sentence (a bare LF gets a CR in front; every other octet, including a bare CR, is kept): */
static size_t rfc_canon(const unsigned char *d, size_t n, unsigned char *o)
{ size_t m = 0; for (size_t k = 0; k < NMAX; k++) if (k < n) { if (d[k] == 0x0A && (k == 0 || d[k - 1] != 0x0D)) o[m++] = 0x0D; o[m++] = d[k]; } return m; }
static void mk_vec(vec_u8 *v, size_t n, size_t cap) { v->data = (unsigned char *)__verif_new_array(1, cap); v->size = n; v->cap = cap; }
/* the harness body is a macro so that its assertions carry the name of the harness function */
#define RUN(version) { \
  size_t n, t; __CPROVER_assume(n <= NMAX && t <= TMAX); \
  vec_u8 data, trailer, hash, left; mk_vec(&data, n, NMAX); mk_vec(&trailer, t, TMAX); mk_vec(&hash, 0, 8); mk_vec(&left, 0, 8); \
  tmcg_openpgp_hashalgo_t algo; __CPROVER_assume(g_hcalls == 0); \
  _Bool ok = version == 3 ? TextDocumentHashV3(&data, &trailer, algo, &hash, &left) \
           : version == 4 ? TextDocumentHash(&data, &trailer, algo, &hash, &left) : TextDocumentHashV5(&data, &trailer, algo, &hash, &left); \
  unsigned char want[2 * NMAX]; size_t m = rfc_canon(data.data, n, want); \
  size_t tail = version == 3 ? 0 : (version == 4 ? 6 : 10); \
  __CPROVER_assert(ok && g_hcalls == 1, "C20: exactly one digest is computed"); \
  __CPROVER_assert(g_hin_n == m + t + tail, "C20: length of the hash input = |canon(document)| + |trailer| + final trailer"); \
  size_t k; __CPROVER_assume(k < m); \
  __CPROVER_assert(g_hin[k] == want[k], "C20: the hash input starts with the canonical form of the document (every octet)"); \
  size_t j; __CPROVER_assume(j < t); \
  __CPROVER_assert(g_hin[m + j] == trailer.data[j], "C20: followed by the trailer (every octet)"); \
  if (version == 4) \
    __CPROVER_assert(g_hin[m + t] == 0x04 && g_hin[m + t + 1] == 0xFF && g_hin[m + t + 2] == 0 && g_hin[m + t + 3] == 0 && g_hin[m + t + 4] == 0 && g_hin[m + t + 5] == t, \
                     "C20: V4 final trailer 04 FF and the four-octet big-endian length of the hashed signature data"); \
  if (version == 5) \
    __CPROVER_assert(g_hin[m + t] == 0x05 && g_hin[m + t + 1] == 0xFF && g_hin[m + t + 2] == 0 && g_hin[m + t + 8] == 0 && g_hin[m + t + 9] == t, \
                     "C20: V5 final trailer 05 FF and the eight-octet big-endian length"); \
  __CPROVER_assert(!(n == 3 && data.data[0] == 0x0D && data.data[1] != 0x0A && data.data[2] == 0x0A), "REACHABILITY-CANARY (must fail): a document with a bare CR and a bare LF is explored"); \
}
void h_v3(void) RUN(3)
void h_v4(void) RUN(4)
void h_v5(void) RUN(5)
