/* HashCompute(algo, in, out) (libgcrypt digest): stub that records the octet string it is given and delivers an
 * arbitrary digest of at most 64 octets */
#define HMAX 32
unsigned char g_hin[HMAX]; size_t g_hin_n; size_t g_hcalls;
static inline void HashCompute(tmcg_openpgp_hashalgo_t algo, vec_u8 *in, vec_u8 *out)
{ (void)algo;
  __CPROVER_assert(in->size <= HMAX, "model limit: recorded hash input");
  for (size_t k = 0; k < HMAX; k++) if (k < in->size) g_hin[k] = in->data[k];
  g_hin_n = in->size; g_hcalls = g_hcalls + 1;
  size_t d; __CPROVER_assume(d <= 4); for (size_t k = 0; k < 4; k++) if (k < d) { unsigned char x; vec_u8__push_back(out, x); } }
