#ifndef INMAX
#define INMAX 10
#endif
/* bounded stand-in: every octet string of at most INMAX octets as subpacket area, any verbosity */
void h_subpacket(void)
{
  vec_u8 in; size_t n; __CPROVER_assume(n <= INMAX);
  in.data = (unsigned char *)malloc(INMAX); __CPROVER_assume(in.data != 0); in.size = n; in.cap = INMAX;
  tmcg_openpgp_packet_ctx_t *out = (tmcg_openpgp_packet_ctx_t *)malloc(sizeof(tmcg_openpgp_packet_ctx_t)); __CPROVER_assume(out != 0);
  out->embeddedsignature = 0; out->embeddedsignaturelen = 0; out->attestedcertifications = 0; out->attestedcertificationslen = 0;
  int verbose;
  tmcg_openpgp_byte_t r = SubpacketDecode(&in, verbose, out);
  __CPROVER_assert(in.size <= n, "input never grows");
}
