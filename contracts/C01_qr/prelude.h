_Bool nondet_bool(void); unsigned long nondet_ulong(void);
/* tmcg_mpz_srandomm(r, m): a residue below m.  The caller repeats the draw until gcd(r, m) = 1; every terminating
 * run ends with such a draw and earlier draws are overwritten, so the stub delivers the accepted draw at once
 * (restriction: the rejection loop is entered once; partial correctness is unaffected). */
static inline void tmcg_mpz_srandomm(mpz_ptr r, mpz_srcptr m)
{ long v = (long)nondet_ulong(); __CPROVER_assume(0 <= v && UF(gcd)(v, m->v) == 1); r->v = v; }
static inline void tmcg_mpz_srandomb(mpz_ptr r, unsigned long size)
{ long v = (long)nondet_ulong(); __CPROVER_assume(size < 63 && 0 <= v && v < (1L << size)); r->v = v; }
#ifndef KMAX
#define KMAX 3
#endif
#ifndef WMAX
#define WMAX 2
#endif
