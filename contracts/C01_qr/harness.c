/* bounded lemma over the REAL functions: for k <= KMAX players, w <= WMAX type bits, every masking player
 * `index`, all coins: a fresh card secret has XOR 0 in every bit column, i.e. TMCG_TypeOfCard(cs) == 0 --
 * masking with it preserves the card type (C01, quadratic-residue encoding) */
static void mk_matrix(vec_vec___mpz_struct *m, size_t k, size_t w)
{
  m->data = (vec___mpz_struct *)__verif_new_array(sizeof(vec___mpz_struct), KMAX); m->size = k; m->cap = KMAX;
  for (size_t i = 0; i < KMAX; i++)
  { m->data[i].data = (__mpz_struct *)__verif_new_array(sizeof(__mpz_struct), WMAX); m->data[i].size = w; m->data[i].cap = WMAX; }
}
void h_cardsecret_xor(void)
{
  size_t k, w, index; __CPROVER_assume(1 <= k && k <= KMAX && 1 <= w && w <= WMAX && index < k);
  SchindelhauerTMCG self; self.TMCG_Players = k; self.TMCG_TypeBits = w;
  TMCG_CardSecret cs; mk_matrix(&cs.r, k, w); mk_matrix(&cs.b, k, w);
  TMCG_PublicKeyRing ring;
  ring.keys.data = (TMCG_PublicKey *)__verif_new_array(sizeof(TMCG_PublicKey), KMAX); ring.keys.size = k; ring.keys.cap = KMAX;
  SchindelhauerTMCG__TMCG_CreateCardSecret(&self, &cs, &ring, index);
  size_t t = SchindelhauerTMCG__TMCG_TypeOfCard(&self, &cs);
  __CPROVER_assert(t == 0, "C01: a fresh card secret is type-preserving (XOR of every bit column is 0)");
  /* and the decoding is the positional value of the column parities */
  size_t gw; __CPROVER_assume(gw < w);
  _Bool par = 0;
  for (size_t i = 0; i < KMAX; i++) if (i < k) par ^= (_Bool)(cs.b.data[i].data[gw].v & 1);
  __CPROVER_assert(par == 0, "C01: column parity is even");
}
/* decoding: TypeOfCard(cs) is the number whose w-th binary digit is the parity of column w */
void h_typeofcard_decode(void)
{
  size_t k, w; __CPROVER_assume(1 <= k && k <= KMAX && 1 <= w && w <= WMAX);
  SchindelhauerTMCG self; self.TMCG_Players = k; self.TMCG_TypeBits = w;
  TMCG_CardSecret cs; mk_matrix(&cs.r, k, w); mk_matrix(&cs.b, k, w);
  for (size_t i = 0; i < KMAX; i++) for (size_t j = 0; j < WMAX; j++) __CPROVER_assume(WORD_OK(cs.b.data[i].data[j].v));
  size_t t = SchindelhauerTMCG__TMCG_TypeOfCard(&self, &cs);
  size_t want = 0;
  for (size_t j = 0; j < WMAX; j++) if (j < w)
  { _Bool par = 0; for (size_t i = 0; i < KMAX; i++) if (i < k) par ^= (_Bool)((cs.b.data[i].data[j].v < 0 ? -cs.b.data[i].data[j].v : cs.b.data[i].data[j].v) & 1);
    if (par) want += ((size_t)1 << j); }
  __CPROVER_assert(t == want, "C01: decoded type = sum over bits of column parity * 2^bit");
}
