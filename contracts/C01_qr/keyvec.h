VECS_DECL(vec_TMCG_PublicKey, TMCG_PublicKey)
