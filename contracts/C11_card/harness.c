/* a well-formed card object (class invariant: at least one row, all rows of one length) of arbitrary dimensions */
static void mk_card(TMCG_Card *c, size_t k, size_t w)
{
  c->z.data = (vec___mpz_struct *)__verif_new_array(sizeof(vec___mpz_struct), KMAX); c->z.size = k; c->z.cap = KMAX;
  for (size_t i = 0; i < KMAX; i++)
  { c->z.data[i].data = (__mpz_struct *)__verif_new_array(sizeof(__mpz_struct), KMAX); c->z.data[i].size = (i < k) ? w : 0; c->z.data[i].cap = KMAX; }
}
static _Bool dims_are(TMCG_Card *c, size_t k, size_t w)
{
  if (c->z.size != k) return 0;
  for (size_t i = 0; i < KMAX; i++) if (i < k && c->z.data[i].size != w) return 0;
  return 1;
}
/* C11 (bounded): resize(k, w) of a USED card object of any dimensions yields exactly k rows of w columns */
void h_card_resize(void)
{
  size_t k0, w0, k, w; __CPROVER_assume(1 <= k0 && k0 <= KMAX && 1 <= w0 && w0 <= KMAX && 1 <= k && k <= KMAX && 1 <= w && w <= KMAX);
  TMCG_Card c; mk_card(&c, k0, w0);
  TMCG_Card__resize(&c, k, w);
  __CPROVER_assert(dims_are(&c, k, w), "C11: after resize(k, w) the card has exactly k rows of w columns");
  __CPROVER_assert(!(k0 == 3 && k == 2 && w0 == w), "REACHABILITY-CANARY (must fail): shrinking a 3-row card to 2 rows is explored");
}
/* C11 (bounded): a successful import into a used card object leaves a card of exactly the imported dimensions */
void h_card_import(void)
{
  size_t k0, w0; __CPROVER_assume(1 <= k0 && k0 <= KMAX && 1 <= w0 && w0 <= KMAX);
  TMCG_Card c; mk_card(&c, k0, w0);
  str_t s; s.data = 0; s.size = 0; s.cap = 0; s.absid = 0;
  strtoul_calls = 0;
  _Bool ok = TMCG_Card__import(&c, s);
  if (ok)
  {
    __CPROVER_assert(strtoul_calls == 2, "import reads exactly the two dimension fields as numbers");
    __CPROVER_assert(dims_are(&c, strtoul_ret[0], strtoul_ret[1]), "C11: an imported card has exactly the imported dimensions k x w");
    __CPROVER_assert(!(k0 == 3 && strtoul_ret[0] == 2), "REACHABILITY-CANARY (must fail): import of a 2-row card into a used 3-row object is explored");
  }
}
