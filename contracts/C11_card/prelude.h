#include "parse_stub.h"
/* mpz_set_str of a field: arbitrary outcome */
static inline int mpz_set_str(mpz_ptr r, const char *s, int base) { (void)s; (void)base; r->v = (long)nondet_ulong(); return nondet_bool() ? 0 : -1; }
#ifndef KMAX
#define KMAX 3
#endif
