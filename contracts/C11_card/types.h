VECS_DECL(vec___mpz_struct, __mpz_struct)
VECS_DECL(vec_vec___mpz_struct, vec___mpz_struct)
