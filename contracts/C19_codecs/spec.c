//@ function PacketTagEncode
//@ contract
__CPROVER_requires(VEC_OK(out, 1))
__CPROVER_assigns(out->size, __CPROVER_object_whole(out->data))
/* RFC 4880 4.2: new format header octet = 0x80 | 0x40 | tag */
__CPROVER_ensures(APPENDED(out, 1) && NEW(out, 0) == (unsigned char)(0xC0 | tag) && KEPT(out))
//@ end

//@ function PacketLengthEncode
//@ contract
__CPROVER_requires(VEC_OK(out, 5) && len <= 0xFFFFFFFFUL)
__CPROVER_assigns(out->size, __CPROVER_object_whole(out->data))
/* RFC 4880 4.2.2.1-3: one, two or five octets */
__CPROVER_ensures(len < 192 ==> APPENDED(out, 1) && NEW(out, 0) == len)
__CPROVER_ensures(192 <= len && len < 8384 ==> APPENDED(out, 2) &&
                  NEW(out, 0) == ((len - 192) >> 8) + 192 && NEW(out, 1) == ((len - 192) & 0xFF))
__CPROVER_ensures(8384 <= len ==> APPENDED(out, 5) && NEW(out, 0) == 0xFF &&
                  NEW(out, 1) == OCT(len, 24) && NEW(out, 2) == OCT(len, 16) && NEW(out, 3) == OCT(len, 8) && NEW(out, 4) == OCT(len, 0))
__CPROVER_ensures(KEPT(out))
//@ end

//@ function PacketLengthDecode
//@ contract
__CPROVER_requires(VEC_OK(in, 0) && __CPROVER_is_fresh(len, sizeof(*len)) && __CPROVER_is_fresh(partlen, sizeof(*partlen)))
__CPROVER_assigns(*len, *partlen)
/* RFC 4880 4.2.2 (new format) */
__CPROVER_ensures(in->size < 1 ==> __CPROVER_return_value == 0)
__CPROVER_ensures(newformat && in->size >= 1 && in->data[0] < 192 ==> __CPROVER_return_value == 1 && *len == in->data[0] && !*partlen)
__CPROVER_ensures(newformat && in->size >= 1 && 192 <= in->data[0] && in->data[0] < 224 ==>
   (in->size < 2 ? __CPROVER_return_value == 0
                 : __CPROVER_return_value == 2 && *len == (((uint32_t)in->data[0] - 192) << 8) + in->data[1] + 192 && !*partlen))
__CPROVER_ensures(newformat && in->size >= 1 && in->data[0] == 255 ==>
   (in->size < 5 ? __CPROVER_return_value == 0 : __CPROVER_return_value == 5 && *len == BE32(in, 1) && !*partlen))
/* 4.2.2.4 partial body length: 1 << (octet & 0x1F) */
__CPROVER_ensures(newformat && in->size >= 1 && 224 <= in->data[0] && in->data[0] < 255 ==>
   __CPROVER_return_value == 1 && *len == ((uint32_t)1 << (in->data[0] & 0x1F)) && *partlen)
/* RFC 4880 4.2.1 (old format length types 0..3) */
__CPROVER_ensures(!newformat && in->size >= 1 && lentype == 0 ==> __CPROVER_return_value == 1 && *len == in->data[0] && !*partlen)
__CPROVER_ensures(!newformat && in->size >= 1 && lentype == 1 ==>
   (in->size < 2 ? __CPROVER_return_value == 0 : __CPROVER_return_value == 2 && *len == (((uint32_t)in->data[0]) << 8) + in->data[1] && !*partlen))
__CPROVER_ensures(!newformat && in->size >= 1 && lentype == 2 ==>
   (in->size < 4 ? __CPROVER_return_value == 0 : __CPROVER_return_value == 4 && *len == BE32(in, 0) && !*partlen))
__CPROVER_ensures(!newformat && in->size >= 1 && lentype == 3 ==> __CPROVER_return_value == 42 && *len == (uint32_t)in->size && !*partlen)
__CPROVER_ensures(!newformat && in->size >= 1 && lentype > 3 ==> __CPROVER_return_value == 0)
//@ end

//@ function PacketScalarFourEncode
//@ contract
__CPROVER_requires(VEC_OK(out, 4))
__CPROVER_assigns(out->size, __CPROVER_object_whole(out->data))
/* RFC 4880 3.1: big-endian four-octet scalar */
__CPROVER_ensures(APPENDED(out, 4) && NEW(out, 0) == OCT(in, 24) && NEW(out, 1) == OCT(in, 16) && NEW(out, 2) == OCT(in, 8) && NEW(out, 3) == OCT(in, 0) && KEPT(out))
//@ end

//@ function PacketScalarEightEncode
//@ contract
__CPROVER_requires(VEC_OK(out, 8))
__CPROVER_assigns(out->size, __CPROVER_object_whole(out->data))
__CPROVER_ensures(APPENDED(out, 8) && NEW(out, 0) == OCT(in, 56) && NEW(out, 1) == OCT(in, 48) && NEW(out, 2) == OCT(in, 40) && NEW(out, 3) == OCT(in, 32)
               && NEW(out, 4) == OCT(in, 24) && NEW(out, 5) == OCT(in, 16) && NEW(out, 6) == OCT(in, 8) && NEW(out, 7) == OCT(in, 0) && KEPT(out))
//@ end

//@ function PacketTimeEncode
//@ contract
__CPROVER_requires(VEC_OK(out, 4))
__CPROVER_assigns(out->size, __CPROVER_object_whole(out->data))
/* RFC 4880 3.5: unsigned four-octet number of seconds */
__CPROVER_ensures(APPENDED(out, 4) && NEW(out, 0) == OCT(in, 24) && NEW(out, 1) == OCT(in, 16) && NEW(out, 2) == OCT(in, 8) && NEW(out, 3) == OCT(in, 0) && KEPT(out))
//@ end
