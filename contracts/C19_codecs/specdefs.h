#ifndef C19_CODECS_SPECDEFS_H
#define C19_CODECS_SPECDEFS_H
#ifndef VCAP
#define VCAP ((size_t)256)            /* model capacity of an octet vector (appends do not depend on it) */
#endif
#define VEC_OK(v, room) (__CPROVER_is_fresh((v), sizeof(*(v))) && (v)->cap == VCAP && (v)->size <= VCAP - (room) && \
                         __CPROVER_is_fresh((v)->data, VCAP))
#define OLDSZ(v) __CPROVER_old((v)->size)
#define APPENDED(v, k) ((v)->size == OLDSZ(v) + (k))
#define NEW(v, j) ((v)->data[OLDSZ(v) + (j)])
/* frame of an append: every earlier octet is unchanged (ghost_k arbitrary, never assigned) */
#define KEPT(v) (ghost_k < OLDSZ(v) ==> (v)->data[ghost_k] == __CPROVER_old((v)->data[ghost_k < VCAP ? ghost_k : 0]))
#define OCT(x, sh) ((unsigned char)(((x) >> (sh)) & 0xFF))
#define BE32(v, o) ((((uint32_t)(v)->data[(o)]) << 24) | (((uint32_t)(v)->data[(o) + 1]) << 16) | \
                    (((uint32_t)(v)->data[(o) + 2]) << 8) | ((uint32_t)(v)->data[(o) + 3]))
#endif
