void h_tag(void) { tmcg_openpgp_byte_t t; vec_u8 *o; PacketTagEncode(t, o); }
void h_lenenc(void) { size_t l; vec_u8 *o; PacketLengthEncode(l, o); }
void h_lendec(void) { vec_u8 *in; _Bool nf; tmcg_openpgp_byte_t lt; uint32_t *len; _Bool *pl; PacketLengthDecode(in, nf, lt, len, pl); }
void h_s4(void) { size_t v; vec_u8 *o; PacketScalarFourEncode(v, o); }
void h_s8(void) { uint64_t v; vec_u8 *o; PacketScalarEightEncode(v, o); }
void h_time(void) { time_t v; vec_u8 *o; PacketTimeEncode(v, o); }
/* lemma over the two contracts: Decode(Encode(len)) == len for every 32-bit length */
void h_len_roundtrip(void)
{
  size_t l; __CPROVER_assume(l <= 0xFFFFFFFFUL);
  vec_u8 o; unsigned char buf[8]; o.data = buf; o.size = 0; o.cap = 8;
  PacketLengthEncode(l, &o);
  uint32_t got; _Bool part;
  size_t n = PacketLengthDecode(&o, 1, 0, &got, &part);
  __CPROVER_assert(n == o.size, "roundtrip: decoder consumes exactly the emitted octets");
  __CPROVER_assert(got == l && !part, "roundtrip: decoded length equals the encoded one");
}
