void h_validity(void) { TMCG_OpenPGP_Signature *self; time_t k; int verbose; _Bool r = TMCG_OpenPGP_Signature__CheckValidity(self, k, verbose);
  __CPROVER_assert(!r, "REACHABILITY-CANARY (must fail): a valid signature exists"); }
void h_integrity(void) { TMCG_OpenPGP_Signature *self; gcry_sexp_t key; vec_u8 *hash; int verbose; _Bool r = TMCG_OpenPGP_Signature__CheckIntegrity(self, key, hash, verbose);
  __CPROVER_assert(!r, "REACHABILITY-CANARY (must fail): an accepted signature exists"); }
