void h_validity(void) { TMCG_OpenPGP_Signature *self; time_t k; int verbose; TMCG_OpenPGP_Signature__CheckValidity(self, k, verbose); }
void h_integrity(void) { TMCG_OpenPGP_Signature *self; gcry_sexp_t key; vec_u8 *hash; int verbose; TMCG_OpenPGP_Signature__CheckIntegrity(self, key, hash, verbose); }
