#include "specdefs.h"
#include "ios_min.h"
static inline void ios_put_cstr(ios_t *s, const char *x) { (void)s; (void)x; }
time_t ghost_now; int ghost_vcalls, ghost_valg; unsigned ghost_vret;
const void *ghost_vhash, *ghost_vkey, *ghost_va, *ghost_vb; int ghost_vhashalgo;
/* trusted: the C library clock */
static inline time_t time(void *p) { (void)p; return ghost_now; }
/* trusted: libgcrypt public-key verification behind the four wrappers; the monitor records which wrapper ran on what */
unsigned nondet_unsigned(void);
#define VSTUB(NAME, ALG) \
  static inline gcry_error_t NAME(vec_u8 *h, gcry_sexp_t key, gcry_mpi_t a, gcry_mpi_t b) \
  { ghost_vcalls++; ghost_valg = ALG; ghost_vhash = h; ghost_vkey = key; ghost_va = a; ghost_vb = b; return ghost_vret; }
VSTUB(AsymmetricVerifyDSA, 17)
VSTUB(AsymmetricVerifyECDSA, 19)
VSTUB(AsymmetricVerifyEdDSA, 22)
static inline gcry_error_t AsymmetricVerifyRSA(vec_u8 *h, gcry_sexp_t key, tmcg_openpgp_hashalgo_t ha, gcry_mpi_t a)
{ ghost_vcalls++; ghost_valg = 1; ghost_vhash = h; ghost_vkey = key; ghost_va = a; ghost_vb = 0; ghost_vhashalgo = (int)ha; return ghost_vret; }
static inline unsigned gcry_err_code(gcry_error_t e) { return e & 0xFFFF; }
static inline const char *gcry_strerror(gcry_error_t e) { (void)e; return ""; }
