//@ function TMCG_OpenPGP_Signature__CheckValidity
//@ contract
/* type invariant of a parsed signature: creation and expiration time come from four-octet fields */
__CPROVER_requires(__CPROVER_is_fresh(self, sizeof(*self)))
__CPROVER_requires(0 <= self->creationtime && self->creationtime <= T32 && 0 <= self->expirationtime && self->expirationtime <= T32)
__CPROVER_requires(0 <= ghost_now && ghost_now < ((time_t)1 << 62))
__CPROVER_assigns(self->expired)
/* property C20: an expired signature, one older than its key, one dated far in the future and one made with a
 * weak hash (MD5, SHA-1, RIPEMD-160) is refused */
__CPROVER_ensures((self->expirationtime != 0 && ghost_now > self->creationtime + self->expirationtime) ==> !__CPROVER_return_value)
__CPROVER_ensures(self->creationtime < keycreationtime ==> !__CPROVER_return_value)
__CPROVER_ensures(self->creationtime > ghost_now + FAR_FUTURE ==> !__CPROVER_return_value)
__CPROVER_ensures(((int)self->hashalgo == 1 || (int)self->hashalgo == 2 || (int)self->hashalgo == 3) ==> !__CPROVER_return_value)
/* exact characterisation: nothing else is refused, and only the listed hash algorithms are accepted */
__CPROVER_ensures(__CPROVER_return_value ==
  (!(self->expirationtime != 0 && ghost_now > self->creationtime + self->expirationtime) &&
   self->creationtime >= keycreationtime && self->creationtime <= ghost_now + FAR_FUTURE && SECURE_HASH((int)self->hashalgo)))
/* the expired flag is raised exactly for an expired signature */
__CPROVER_ensures(self->expired == ((self->expirationtime != 0 && ghost_now > self->creationtime + self->expirationtime) ? 1 : __CPROVER_old(self->expired)))
//@ end

//@ function TMCG_OpenPGP_Signature__CheckIntegrity
//@ contract
/* the hash value is whatever the hashing step produced: any length, including empty (hashing reports an
 * unknown algorithm by an empty result) */
__CPROVER_requires(__CPROVER_is_fresh(self, sizeof(*self)) && SVEC_OK(&self->left))
__CPROVER_requires(__CPROVER_is_fresh(hash, sizeof(*hash)) && SVEC_OK(hash))
__CPROVER_requires(ghost_vcalls == 0)
__CPROVER_assigns(ghost_vcalls, ghost_valg, ghost_vhash, ghost_vkey, ghost_va, ghost_vb, ghost_vhashalgo)
/* accepted only if the two-octet quick check matches and the verification for the signature's own algorithm,
 * on this hash, this key and the signature's own values, succeeded -- exactly one such call */
__CPROVER_ensures(__CPROVER_return_value ==> (self->left.size == 2 ==> (hash->size >= 2 && self->left.data[0] == hash->data[0] && self->left.data[1] == hash->data[1])))
__CPROVER_ensures(__CPROVER_return_value ==> (ghost_vcalls == 1 && ghost_vret == 0 && ghost_vhash == hash && ghost_vkey == key))
__CPROVER_ensures(__CPROVER_return_value ==> (
   (((int)self->pkalgo == 1 || (int)self->pkalgo == 3) && ghost_valg == 1 && ghost_va == self->rsa_md && ghost_vhashalgo == (int)self->hashalgo) ||
   ((int)self->pkalgo == 17 && ghost_valg == 17 && ghost_va == self->dsa_r && ghost_vb == self->dsa_s) ||
   ((int)self->pkalgo == 19 && ghost_valg == 19 && ghost_va == self->dsa_r && ghost_vb == self->dsa_s) ||
   ((int)self->pkalgo == 22 && ghost_valg == 22 && ghost_va == self->dsa_r && ghost_vb == self->dsa_s)))
/* and everything that passes those is accepted */
__CPROVER_ensures((!(self->left.size == 2 && (self->left.data[0] != hash->data[hash->size >= 2 ? 0 : 0] || self->left.data[1] != hash->data[hash->size >= 2 ? 1 : 0])) && hash->size >= 2 &&
   ((int)self->pkalgo == 1 || (int)self->pkalgo == 3 || (int)self->pkalgo == 17 || (int)self->pkalgo == 19 || (int)self->pkalgo == 22) && ghost_vret == 0) ==> __CPROVER_return_value)
//@ end
