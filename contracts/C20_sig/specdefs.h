#ifndef C20_SIG_SPECDEFS_H
#define C20_SIG_SPECDEFS_H
#define SCAP ((size_t)64)   /* model capacity of the octet vectors (hash values are at most 64 octets; `left` is 2) */
#define SVEC_OK(v) ((v)->cap == SCAP && (v)->size <= SCAP && __CPROVER_is_fresh((v)->data, SCAP))
#define T32 ((time_t)0xFFFFFFFFL)  /* OpenPGP times are four-octet fields */
#define FAR_FUTURE ((time_t)(60 * 60 * 25))
/* ghost state of the trusted stubs */
extern time_t ghost_now;            /* what time(NULL) returns: any non-negative time below 2^62 */
extern int ghost_vcalls, ghost_valg;
extern unsigned ghost_vret;
extern const void *ghost_vhash, *ghost_vkey, *ghost_va, *ghost_vb; extern int ghost_vhashalgo;
#define SECURE_HASH(a) ((a) == 8 || (a) == 9 || (a) == 10 || (a) == 12 || (a) == 14)
#endif
