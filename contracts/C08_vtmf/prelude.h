#include "specdefs.h"
