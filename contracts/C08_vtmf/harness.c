void h_UpdateKey(void) { BarnettSmartVTMF_dlog *self; ios_t *in; BarnettSmartVTMF_dlog__KeyGenerationProtocol_UpdateKey(self, in); }
void h_RemoveKey(void) { BarnettSmartVTMF_dlog *self; ios_t *in; BarnettSmartVTMF_dlog__KeyGenerationProtocol_RemoveKey(self, in); }
void h_Finalize(void) { BarnettSmartVTMF_dlog *self; BarnettSmartVTMF_dlog__KeyGenerationProtocol_Finalize(self); }
