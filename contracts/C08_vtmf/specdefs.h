#ifndef C08_SPECDEFS_H
#define C08_SPECDEFS_H
#include "../C05_vtmf/specdefs.h"
/* the map key under which a public key is stored: text of its fingerprint hash in a fresh ostringstream */
#define KEYID(key) UF(acc_mpz)(0, UF(hash1)(key))
#define MAP self->h_j
/* acceptance condition of a key contribution (same terms as KeyGenerationProtocol_VerifyNIZK's contract) */
#define NIZK_OK(key, c, r) ((0 < (key) && (key) < P && POWM((key), Q, P) == 1) \
    && UF(bits)(c) <= HASHLEN8 && ABSV(r) < Q \
    && (c) == UF(hash5)(P, Q, G, (key), MULMOD(POWM(G, (r), P), POWM((key), (c), P), P)))
#endif
