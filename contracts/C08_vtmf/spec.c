//@ function BarnettSmartVTMF_dlog__KeyGenerationProtocol_UpdateKey
//@ contract
__CPROVER_requires(VTMF_INV(self) && IOS_IN_OK(in) && __tmcg_thrown == 0)
__CPROVER_requires(in->pos + 3 <= in->ntok ==> WORD_OK(in->tok[in->pos + 2]))
__CPROVER_assigns(IOS_IN_ASSIGNS(in), __tmcg_thrown, V(self->h), MAP.present, MAP.val, MAP.size)
__CPROVER_ensures(__tmcg_thrown == 0 || __tmcg_thrown == TMCG_EXC_runtime_error)
/* C08: a contribution is accepted exactly when key, c, r arrive and the proof of knowledge verifies ... */
__CPROVER_ensures(__CPROVER_return_value ==
   (__tmcg_thrown == 0 && READ_OK(in, 3) && NIZK_OK(TOK(in, 0), TOK(in, 1), TOK(in, 2))))
/* ... a refused contribution leaves the common key and the key table unchanged ... */
__CPROVER_ensures(!__CPROVER_return_value ==> H == __CPROVER_old(H)
   && MAP.present == __CPROVER_old(MAP.present) && MAP.val == __CPROVER_old(MAP.val) && MAP.size == __CPROVER_old(MAP.size))
/* ... an accepted one multiplies the key in and stores it under its fingerprint (ghost_mkey arbitrary) */
__CPROVER_ensures(__CPROVER_return_value ==> H == MULMOD(__CPROVER_old(H), TOK(in, 0), P))
__CPROVER_ensures(__CPROVER_return_value && ghost_mkey == KEYID(TOK(in, 0)) ==> MAP.present && V(MAP.val) == TOK(in, 0))
__CPROVER_ensures(__CPROVER_return_value && ghost_mkey != KEYID(TOK(in, 0)) ==>
   MAP.present == __CPROVER_old(MAP.present) && MAP.val == __CPROVER_old(MAP.val) && MAP.size == __CPROVER_old(MAP.size))
//@ end

//@ function BarnettSmartVTMF_dlog__KeyGenerationProtocol_RemoveKey
//@ contract
__CPROVER_requires(VTMF_INV(self) && IOS_IN_OK(in) && __tmcg_thrown == 0)
__CPROVER_requires(MAP.present ==> __CPROVER_is_fresh(MAP.val, sizeof(__mpz_struct)))
__CPROVER_assigns(IOS_IN_ASSIGNS(in), __tmcg_thrown, V(self->h), MAP.present, MAP.size)
__CPROVER_frees(MAP.val)
__CPROVER_ensures(__tmcg_thrown == 0 || __tmcg_thrown == TMCG_EXC_runtime_error)
/* C08: removal succeeds only for a stored key and multiplies by the inverse of the STORED key
 * (stated for the arbitrary table key ghost_mkey); a failed removal changes nothing */
__CPROVER_ensures(__CPROVER_return_value ==> __tmcg_thrown == 0 && READ_OK(in, 3))
__CPROVER_ensures(__CPROVER_return_value && READ_OK(in, 3) && ghost_mkey == KEYID(TOK(in, 0)) ==>
   __CPROVER_old(MAP.present) && !MAP.present && UF(invertible)(__CPROVER_old(V(MAP.val)), P)
   && H == MULMOD(__CPROVER_old(H), UF(invert)(__CPROVER_old(V(MAP.val)), P), P))
__CPROVER_ensures(!__CPROVER_return_value ==> H == __CPROVER_old(H) && MAP.present == __CPROVER_old(MAP.present) && MAP.size == __CPROVER_old(MAP.size))
__CPROVER_ensures(!READ_OK(in, 3) || ghost_mkey != KEYID(TOK(in, 0)) ==> MAP.present == __CPROVER_old(MAP.present) && MAP.size == __CPROVER_old(MAP.size))
//@ end

//@ function BarnettSmartVTMF_dlog__KeyGenerationProtocol_Finalize
//@ contract
__CPROVER_requires(__CPROVER_is_fresh(self, sizeof(*self)) && __CPROVER_is_fresh(self->fpowm_table_h, TMCG_MAX_FPOWM_T * sizeof(mpz_t)))
__CPROVER_requires(P != 0 && __tmcg_thrown == 0)
__CPROVER_assigns(__CPROVER_object_whole(self->fpowm_table_h), __tmcg_thrown, ghost_pre_tab, ghost_pre_t)
/* C08: the fixed-base table used for masking is rebuilt for the final common key */
__CPROVER_ensures(__tmcg_thrown == 0 && V(self->fpowm_table_h[0]) == H)
/* C01: ... for every exponent below q, i.e. with |q| entries (masking raises h to exponents of up to |q| bits; a
 * shorter table silently yields h^r = 0) */
__CPROVER_ensures(ghost_pre_tab == __CPROVER_POINTER_OBJECT(self->fpowm_table_h) && ghost_pre_t == UF(bits)(Q))
//@ end
