typedef struct CallasDonnerhackeFinneyShawThayerRFC4880 CallasDonnerhackeFinneyShawThayerRFC4880;
#ifndef NMAX
#define NMAX 6
#endif
#define SCAP (2 * NMAX + 16)
