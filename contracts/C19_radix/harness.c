/* RFC 4880 6.3 / RFC 2045 radix-64 alphabet and the CRC-24 sample code of RFC 4880 6.1, transcribed */
static const char RFC_B64[] = "ABCDEFGHIJKLMNOPQRSTUVWXYZabcdefghijklmnopqrstuvwxyz0123456789+/";
static unsigned long rfc_crc24(const unsigned char *d, size_t n)
{ unsigned long crc = 0xB704CEUL; for (size_t k = 0; k < NMAX; k++) if (k < n) { crc ^= ((unsigned long)d[k]) << 16; for (int i = 0; i < 8; i++) { crc <<= 1; if (crc & 0x1000000UL) crc ^= 0x1864CFBUL; } } return crc & 0xFFFFFFUL; }
static void mk_vec(vec_u8 *v, size_t n, size_t cap) { v->data = (unsigned char *)__verif_new_array(1, cap); v->size = n; v->cap = cap; }
static void mk_str(str_t *s, size_t cap) { s->data = (char *)__verif_new_array(1, cap); s->size = 0; s->cap = cap; s->absid = 0; }

/* bounded: every octet string of at most NMAX octets */
void h_radix64(void)
{
  size_t n; __CPROVER_assume(n <= NMAX);
  vec_u8 in; mk_vec(&in, n, NMAX);
  str_t out; mk_str(&out, SCAP);
  _Bool lb = nondet_bool();
  Radix64Encode(&in, &out, lb);
  /* (1) RFC 4880 6.3: 4 characters per 3 octets, '=' padding */
  size_t groups = (n + 2) / 3;
  __CPROVER_assert(out.size == 4 * groups, "C19: radix-64 output length (no line break below 48 octets)");
  size_t g; __CPROVER_assume(g < groups);           /* arbitrary 24-bit group */
  unsigned char b0 = in.data[3 * g], b1 = (3 * g + 1 < n) ? in.data[3 * g + 1] : 0, b2 = (3 * g + 2 < n) ? in.data[3 * g + 2] : 0;
  __CPROVER_assert(out.data[4 * g] == RFC_B64[b0 >> 2], "C19: 1st character of a group");
  __CPROVER_assert(out.data[4 * g + 1] == RFC_B64[((b0 & 3) << 4) | (b1 >> 4)], "C19: 2nd character of a group");
  __CPROVER_assert(out.data[4 * g + 2] == ((3 * g + 1 < n) ? RFC_B64[((b1 & 15) << 2) | (b2 >> 6)] : '='), "C19: 3rd character / pad");
  __CPROVER_assert(out.data[4 * g + 3] == ((3 * g + 2 < n) ? RFC_B64[b2 & 63] : '='), "C19: 4th character / pad");
  /* (2) decoding the emitted text recovers exactly the octets */
  str_t copy; mk_str(&copy, SCAP); for (size_t k = 0; k < SCAP; k++) if (k < out.size) copy.data[k] = out.data[k]; copy.size = out.size;
  vec_u8 dec; mk_vec(&dec, 0, NMAX + 3);
  Radix64Decode(copy, &dec);
  __CPROVER_assert(dec.size == n, "C19: Radix64Decode(Radix64Encode(x)) has the length of x");
  size_t j; __CPROVER_assume(j < n);
  __CPROVER_assert(dec.data[j] == in.data[j], "C19: Radix64Decode(Radix64Encode(x)) = x");
  __CPROVER_assert(n != 5, "REACHABILITY-CANARY (must fail): a 5-octet input is explored");
}
void h_crc24(void)
{
  size_t n; __CPROVER_assume(n <= NMAX);
  vec_u8 in; mk_vec(&in, n, NMAX);
  vec_u8 out; mk_vec(&out, 0, 4);
  CRC24Compute(&in, &out);
  unsigned long want = rfc_crc24(in.data, n);
  __CPROVER_assert(out.size == 3 && out.data[0] == ((want >> 16) & 0xFF) && out.data[1] == ((want >> 8) & 0xFF) && out.data[2] == (want & 0xFF),
                   "C19: CRC24Compute = RFC 4880 6.1 sample code, three octets big endian");
  __CPROVER_assert(n != 4, "REACHABILITY-CANARY (must fail): a 4-octet input is explored");
}
