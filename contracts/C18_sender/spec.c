//@ function NaorPinkasEOTP__Send_interactive_OneOutOfTwo
//@ contract
__CPROVER_requires(EOTP_INV(self) && MPZ_OK(M0) && MPZ_OK(M1) && IOS_IN_OK(in) && __CPROVER_is_fresh(out, sizeof(*out)) && __tmcg_thrown == 0)
__CPROVER_requires(dr_n == 0 && ghost_ok < 4)
__CPROVER_assigns(IOS_IN_ASSIGNS(in), IOS_OUT_ASSIGNS(out), __tmcg_thrown, dr_n, __CPROVER_object_whole(dr), __CPROVER_object_whole(dr_mod))
__CPROVER_ensures(__tmcg_thrown == 0 || __tmcg_thrown == TMCG_EXC_runtime_error || __tmcg_thrown == TMCG_EXC_invalid_argument)
/* C18: the sender answers only a query whose four elements are members of the order-q subgroup and whose
 * z-values differ (a query with z0 = z1 would open both messages) ... */
__CPROVER_ensures(__CPROVER_return_value ==> __tmcg_thrown == 0 && in->pos == __CPROVER_old(in->pos) + 4
   && CE(TOK(in, 0)) && CE(TOK(in, 1)) && CE(TOK(in, 2)) && CE(TOK(in, 3)) && TOK(in, 2) != TOK(in, 3))
/* ... a refused query gets no ciphertext at all ... */
__CPROVER_ensures(!__CPROVER_return_value && __tmcg_thrown == 0 ==> out->nput == __CPROVER_old(out->nput))
/* ... and an answered one gets exactly four integers, each message encrypted under its OWN fresh pair
 * (r_i, s_i) of residues below q:  w_i = x^{s_i} g^{r_i},  c_i = z_i^{s_i} y^{r_i} M_i  (ghost_ok arbitrary) */
__CPROVER_ensures(__CPROVER_return_value ==> out->nput == __CPROVER_old(out->nput) + 4 && dr_n == 4
   && dr_mod[0] == Q && dr_mod[1] == Q && dr_mod[2] == Q && dr_mod[3] == Q)
__CPROVER_ensures(__CPROVER_return_value && __CPROVER_old(out->nput) == 0 && ghost_ok == 0 ==>
   out->okv == MULMOD(POWM(TOK(in, 0), dr[1], P), POWM(G, dr[0], P), P))
__CPROVER_ensures(__CPROVER_return_value && __CPROVER_old(out->nput) == 0 && ghost_ok == 1 ==>
   out->okv == MULMOD(MULMOD(POWM(TOK(in, 2), dr[1], P), POWM(TOK(in, 1), dr[0], P), P), V(M0), P))
__CPROVER_ensures(__CPROVER_return_value && __CPROVER_old(out->nput) == 0 && ghost_ok == 2 ==>
   out->okv == MULMOD(POWM(TOK(in, 0), dr[3], P), POWM(G, dr[2], P), P))
__CPROVER_ensures(__CPROVER_return_value && __CPROVER_old(out->nput) == 0 && ghost_ok == 3 ==>
   out->okv == MULMOD(MULMOD(POWM(TOK(in, 3), dr[3], P), POWM(TOK(in, 1), dr[2], P), P), V(M1), P))
//@ end

//@ function NaorPinkasEOTP__Choose_interactive_OneOutOfTwo
//@ contract
__CPROVER_requires(EOTP_INV(self) && MPZ_OK(M) && IOS_IN_OK(in) && __CPROVER_is_fresh(out, sizeof(*out)) && __tmcg_thrown == 0)
__CPROVER_requires(sigma < 2 && dr_n == 0 && ghost_ok < 4 && WORD_OK(MUL(Q, Q)))
__CPROVER_assigns(V(M), IOS_IN_ASSIGNS(in), IOS_OUT_ASSIGNS(out), __tmcg_thrown, dr_n, __CPROVER_object_whole(dr), __CPROVER_object_whole(dr_mod))
__CPROVER_ensures(__tmcg_thrown == 0 || __tmcg_thrown == TMCG_EXC_runtime_error || __tmcg_thrown == TMCG_EXC_invalid_argument)
/* C18, first move: three fresh residues a, b, c below q; the query is x = g^a, y = g^b and the z-value of the chooser's
 * OWN index hides a*b mod q while the other one is g^c for the independent c (ghost_ok: arbitrary output position) */
__CPROVER_ensures(__tmcg_thrown == 0 ==> (dr_n == 3 && dr_mod[0] == Q && dr_mod[1] == Q && dr_mod[2] == Q && out->nput == __CPROVER_old(out->nput) + 4))
__CPROVER_ensures((__tmcg_thrown == 0 && __CPROVER_old(out->nput) == 0 && ghost_ok == 0) ==> out->okv == POWM(G, dr[0], P))
__CPROVER_ensures((__tmcg_thrown == 0 && __CPROVER_old(out->nput) == 0 && ghost_ok == 1) ==> out->okv == POWM(G, dr[1], P))
__CPROVER_ensures((__tmcg_thrown == 0 && __CPROVER_old(out->nput) == 0 && ghost_ok == 2) ==> out->okv == POWM(G, (sigma == 0 ? MOD(MUL(dr[0], dr[1]), Q) : dr[2]), P))
__CPROVER_ensures((__tmcg_thrown == 0 && __CPROVER_old(out->nput) == 0 && ghost_ok == 3) ==> out->okv == POWM(G, (sigma == 1 ? MOD(MUL(dr[0], dr[1]), Q) : dr[2]), P))
/* second move: the answer is used only if both w-values are subgroup members, and the output is the ciphertext of
 * the chooser's own index divided by (w_sigma)^b:  M = c_sigma * ((w_sigma)^b)^-1 mod p */
__CPROVER_ensures(__CPROVER_return_value ==> (__tmcg_thrown == 0 && in->pos == __CPROVER_old(in->pos) + 4 && CE(TOK(in, 0)) && CE(TOK(in, 2))))
__CPROVER_ensures(__CPROVER_return_value ==> V(M) == MULMOD(TOK(in, (sigma == 0 ? 1 : 3)), UF(invert)(POWM(TOK(in, (sigma == 0 ? 0 : 2)), dr[1], P), P), P))
//@ end
