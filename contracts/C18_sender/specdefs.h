#ifndef C18_SPECDEFS_H
#define C18_SPECDEFS_H
#define P V(self->p)
#define Q V(self->q)
#define G V(self->g)
#define MULMOD(a, b, m) MOD(MUL((a), (b)), (m))
#define CE(a) (0 < (a) && (a) < P && POWM((a), Q, P) == 1)
#define IOS_GOOD(s) (!(s)->fail && !((s)->pos >= (s)->ntok && (s)->eof_after_last))
#define TOK(s, k) ((s)->tok[(__CPROVER_old((s)->pos) + (k)) < IOS_MAXTOK ? __CPROVER_old((s)->pos) + (k) : 0])
#define EOTP_INV(self) (__CPROVER_is_fresh((self), sizeof(*(self))) && __CPROVER_is_fresh((self)->fpowm_table_g, TMCG_MAX_FPOWM_T * sizeof(mpz_t)) && \
   V((self)->fpowm_table_g[0]) == G && P > 1 && Q > 1 && UF(bits)(Q) <= (unsigned long)TMCG_MAX_FPOWM_T && WORD_OK(Q))
/* the four sender coins of the 1-out-of-2 protocol: draws number 0..3 of the residue sampler, in call order r0, s0, r1, s1 */
size_t dr_n; long dr[4]; long dr_mod[4];
#endif
