void h_send2(void) { NaorPinkasEOTP *self; mpz_srcptr a, b; ios_t *in, *out; NaorPinkasEOTP__Send_interactive_OneOutOfTwo(self, a, b, in, out); }
