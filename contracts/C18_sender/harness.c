void h_send2(void) { NaorPinkasEOTP *self; mpz_srcptr a, b; ios_t *in, *out; NaorPinkasEOTP__Send_interactive_OneOutOfTwo(self, a, b, in, out); }
void h_choose2(void) { NaorPinkasEOTP *self; size_t sigma; mpz_ptr M; ios_t *in, *out; _Bool r = NaorPinkasEOTP__Choose_interactive_OneOutOfTwo(self, sigma, M, in, out);
  __CPROVER_assert(!r, "REACHABILITY-CANARY (must fail): the chooser obtains a message"); }
