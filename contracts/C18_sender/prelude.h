#include "specdefs.h"
/* tmcg_mpz_srandomm (libgcrypt + mpz_mod): an arbitrary residue below the modulus; the first four draws are logged */
static inline void tmcg_mpz_srandomm(mpz_ptr r, mpz_srcptr m)
{
  long v = (long)nondet_ulong(); __CPROVER_assume(0 <= v && (m->v > 0 ==> v < m->v));
  if (dr_n < 4) { dr[dr_n] = v; dr_mod[dr_n] = m->v; }
  __CPROVER_assume(dr_n + 1 > dr_n); dr_n = dr_n + 1;
  r->v = v;
}
/* constant-time power: assumed contract (value = plain modular power is the bounded result of group C09_exact);
 * it may refuse with a standard exception (even modulus, non-invertible intermediate) */
void tmcg_mpz_spowm(mpz_ptr res, mpz_srcptr m, mpz_srcptr x, mpz_srcptr p)
__CPROVER_requires(__CPROVER_w_ok(res, sizeof(*res)) && __CPROVER_r_ok(m, sizeof(*m)) && __CPROVER_r_ok(x, sizeof(*x)) && __CPROVER_r_ok(p, sizeof(*p)) && __tmcg_thrown == 0)
__CPROVER_assigns(V(res), __tmcg_thrown)
__CPROVER_ensures(__tmcg_thrown == 0 || __tmcg_thrown == TMCG_EXC_invalid_argument || __tmcg_thrown == TMCG_EXC_runtime_error)
__CPROVER_ensures(__tmcg_thrown == 0 ==> V(res) == POWM(V(m), V(x), V(p)))
;
