//@ function PacketSedEncode
//@ contract
__CPROVER_requires(VEC_OK(in, 0) && in->size <= BODYMAX && VEC_OK(out, BODYMAX + 6))
__CPROVER_assigns(out->size, __CPROVER_object_whole(out->data))
/* RFC 4880 5.7 / 4.2: new-format header octet for tag 9, the body length in its shortest form, the body unchanged */
__CPROVER_ensures(APPENDED(out, 1 + LENLEN(in->size) + in->size) && HDR(out, 0, 0xC9) && LEN_HDR(out, 1, in->size))
__CPROVER_ensures(ghost_j < in->size ==> NEW(out, 1 + LENLEN(in->size) + ghost_j) == in->data[ghost_j])
__CPROVER_ensures(KEPT(out))
//@ end

//@ function PacketMdcEncode
//@ contract
__CPROVER_requires(VEC_OK(in, 0) && in->size <= BODYMAX && VEC_OK(out, BODYMAX + 6))
__CPROVER_assigns(out->size, __CPROVER_object_whole(out->data))
/* RFC 4880 5.14: tag 19, one-octet length 20, then the hash value handed in */
__CPROVER_ensures(APPENDED(out, 2 + in->size) && HDR(out, 0, 0xD3) && HDR(out, 1, 20))
__CPROVER_ensures(ghost_j < in->size ==> NEW(out, 2 + ghost_j) == in->data[ghost_j])
__CPROVER_ensures(KEPT(out))
//@ end

//@ function PacketUidEncode
//@ contract
__CPROVER_requires(__CPROVER_is_fresh(uid, sizeof(*uid)) && uid->size <= BODYMAX && __CPROVER_is_fresh(uid->data, BODYMAX + 1) && VEC_OK(out, BODYMAX + 6))
__CPROVER_assigns(out->size, __CPROVER_object_whole(out->data))
/* RFC 4880 5.11: tag 13, length, the UTF-8 text */
__CPROVER_ensures(APPENDED(out, 1 + LENLEN(uid->size) + uid->size) && HDR(out, 0, 0xCD) && LEN_HDR(out, 1, uid->size))
__CPROVER_ensures(ghost_j < uid->size ==> NEW(out, 1 + LENLEN(uid->size) + ghost_j) == (unsigned char)uid->data[ghost_j])
__CPROVER_ensures(KEPT(out))
//@ loop 1
__CPROVER_assigns(i, out->size, __CPROVER_object_whole(out->data))
__CPROVER_loop_invariant(i <= uid->size && out->size == __CPROVER_loop_entry(out->size) + i && out->cap == VCAP)
__CPROVER_loop_invariant(ghost_j < i ==> out->data[__CPROVER_loop_entry(out->size) + ghost_j] == (unsigned char)uid->data[ghost_j])
__CPROVER_loop_invariant(ghost_k < __CPROVER_loop_entry(out->size) ==> out->data[ghost_k] == __CPROVER_loop_entry(out->data[ghost_k < VCAP ? ghost_k : 0]))
__CPROVER_decreases(uid->size - i)
//@ end
