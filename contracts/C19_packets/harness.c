void h_PacketSedEncode(void) { vec_u8 *in, *out; PacketSedEncode(in, out); }
void h_PacketMdcEncode(void) { vec_u8 *in, *out; PacketMdcEncode(in, out); }
void h_PacketUidEncode(void) { str_t *uid; vec_u8 *out; PacketUidEncode(uid, out); }
