#include "specdefs.h"
typedef struct CallasDonnerhackeFinneyShawThayerRFC4880 CallasDonnerhackeFinneyShawThayerRFC4880;
size_t ghost_j;
