#ifndef C19_PACKETS_SPECDEFS_H
#define C19_PACKETS_SPECDEFS_H
#define BODYMAX ((size_t)32768)   /* bodies up to 32 KiB: all three length forms (1, 2 and 5 octets) are reached */
#define LENLEN(n) ((n) < 192 ? 1 : ((n) < 8384 ? 2 : 5))
/* RFC 4880 4.2.2 length octets at offset o of the appended part */
#define LEN_AT(v, o, n) ((n) < 192 ? NEW(v, (o)) == (n) : ((n) < 8384 ? (NEW(v, (o)) == (((n) - 192) >> 8) + 192 && NEW(v, (o) + 1) == (((n) - 192) & 0xFF)) : \
   (NEW(v, (o)) == 0xFF && NEW(v, (o) + 1) == OCT((n), 24) && NEW(v, (o) + 2) == OCT((n), 16) && NEW(v, (o) + 3) == OCT((n), 8) && NEW(v, (o) + 4) == OCT((n), 0))))
/* header octets are stated in ghost-index form too (position ghost_k arbitrary): "if ghost_k is the j-th appended
 * position then it holds val" -- for every position, because the vector model keeps exactly the ghost positions */
#define HDR(v, j, val) ((ghost_k == OLDSZ(v) + (j)) ==> (v)->data[ghost_k < VCAP ? ghost_k : 0] == (unsigned char)(val))
#define LEN_HDR(v, o, n) ((n) < 192 ? HDR(v, (o), (n)) : ((n) < 8384 ? (HDR(v, (o), (((n) - 192) >> 8) + 192) && HDR(v, (o) + 1, ((n) - 192) & 0xFF)) : \
   (HDR(v, (o), 0xFF) && HDR(v, (o) + 1, OCT((n), 24)) && HDR(v, (o) + 2, OCT((n), 16)) && HDR(v, (o) + 3, OCT((n), 8)) && HDR(v, (o) + 4, OCT((n), 0)))))
extern size_t ghost_j;   /* arbitrary position inside a copied range, never assigned */
#endif
