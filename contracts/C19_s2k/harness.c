void h_iter(void) { tmcg_openpgp_hashalgo_t algo; uint32_t cnt; size_t nzp; vec_u8 *in, *out; HashCompute_iter(algo, cnt, nzp, in, out); }
void h_iter_secure(void) { tmcg_openpgp_hashalgo_t algo; uint32_t cnt; size_t nzp; vec_u8 *in, *out; HashCompute_iter_secure(algo, cnt, nzp, in, out); }
