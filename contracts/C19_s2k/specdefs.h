#ifndef C19_S2K_SPECDEFS
#define C19_S2K_SPECDEFS
#define VEC_OK(v) (__CPROVER_is_fresh((v), sizeof(vec_u8)) && (v)->cap == VCAP && (v)->size <= VCAP && __CPROVER_is_fresh((v)->data, VCAP))
extern size_t put_n, ghost_p, g_len, g_nzp, md_phase, ghost_phase; extern unsigned char ghost_put_val;
/* RFC 4880 3.7.1.3 (and 3.7.1.1 for the preloaded zeros): the stream consists of nzp zero octets followed by the
 * input repeated cyclically; STREAM_UPTO(n) states this for the arbitrary position ghost_p if it lies below n */
#define STREAM_UPTO(n) ((ghost_p < nzp && ghost_p < (n) ==> ghost_put_val == 0) && \
   (nzp <= ghost_p && ghost_p < (n) ==> ghost_phase < in->size && ghost_put_val == in->data[ghost_phase]))
#define GHOST_SETUP (g_len == in->size && g_nzp == nzp && md_phase == 0)
#define PHASE_IS(i) (md_phase == ((i) == in->size ? 0 : (i)))
#endif
