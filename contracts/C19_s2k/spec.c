//@ function HashCompute_iter
//@ contract
__CPROVER_requires(VEC_OK(in) && VEC_OK(out) && out->size <= VCAP - 64 && nzp <= 65536 && put_n == 0 && !md_is_open && !md_is_final && GHOST_SETUP)
__CPROVER_assigns(out->size, __CPROVER_object_whole(out->data), put_n, ghost_put_val, md_phase, ghost_phase, md_is_open, md_is_final, md_object)
/* C19 (RFC 4880 3.7.1.3): when a digest is produced, exactly nzp + max(count, |input|) octets were hashed -- the
 * whole input at least once even if the count is smaller -- and octet number k of them (k arbitrary) is a zero for
 * k < nzp and octet (k - nzp) mod |input| of the input otherwise */
__CPROVER_ensures(md_is_final ==> put_n == nzp + (cnt > in->size ? (size_t)cnt : in->size))
__CPROVER_ensures(md_is_final ==> STREAM_UPTO(put_n))
/* an empty input (or an unusable algorithm) is reported by an empty result */
__CPROVER_ensures(in->size == 0 ==> out->size == 0 && !md_is_final)
//@ loop 1
__CPROVER_assigns(i, put_n, ghost_put_val, md_phase, ghost_phase)
__CPROVER_loop_invariant(i <= nzp && put_n == i && md_phase == 0 && STREAM_UPTO(put_n))
__CPROVER_decreases(nzp - i)
//@ loop 2
__CPROVER_assigns(i, put_n, ghost_put_val, md_phase, ghost_phase)
__CPROVER_loop_invariant(i <= in->size && put_n == nzp + i && PHASE_IS(i) && STREAM_UPTO(put_n))
__CPROVER_decreases(in->size - i)
//@ loop 3
__CPROVER_assigns(c, put_n, ghost_put_val, md_phase, ghost_phase)
__CPROVER_loop_invariant(in->size <= c && put_n == nzp + c && STREAM_UPTO(put_n))
__CPROVER_loop_invariant(c <= cnt || c == in->size)
__CPROVER_loop_invariant(md_phase == 0 || c >= cnt)
__CPROVER_decreases(cnt > c ? cnt - c : 0)
//@ loop 4
__CPROVER_assigns(i, c, put_n, ghost_put_val, md_phase, ghost_phase)
__CPROVER_loop_invariant(i <= in->size && i <= c && c <= cnt && put_n == nzp + c && STREAM_UPTO(put_n))
__CPROVER_loop_invariant(PHASE_IS(i) && c == __CPROVER_loop_entry(c) + i)
__CPROVER_decreases(in->size - i)
//@ loop 5
__CPROVER_assigns(i, out->size, __CPROVER_object_whole(out->data))
__CPROVER_loop_invariant(i <= dlen && out->size == __CPROVER_loop_entry(out->size) + i)
__CPROVER_decreases(dlen - i)
//@ end

//@ function HashCompute_iter_secure
//@ contract
__CPROVER_requires(VEC_OK(in) && VEC_OK(out) && out->size <= VCAP - 64 && nzp <= 65536 && put_n == 0 && !md_is_open && !md_is_final && GHOST_SETUP)
/* an empty input would never advance the counted loop; S2KCompute always passes salt (8 octets) + passphrase */
__CPROVER_requires(in->size > 0)
__CPROVER_assigns(out->size, __CPROVER_object_whole(out->data), put_n, ghost_put_val, md_phase, ghost_phase, md_is_open, md_is_final, md_object)
__CPROVER_ensures(md_is_final ==> put_n == nzp + (cnt > in->size ? (size_t)cnt : in->size))
__CPROVER_ensures(md_is_final ==> STREAM_UPTO(put_n))
__CPROVER_ensures(__CPROVER_return_value == 0 ==> md_is_final)
__CPROVER_ensures(!md_is_open)
//@ loop 1
__CPROVER_assigns(i, put_n, ghost_put_val, md_phase, ghost_phase)
__CPROVER_loop_invariant(i <= nzp && put_n == i && md_phase == 0 && STREAM_UPTO(put_n))
__CPROVER_decreases(nzp - i)
//@ loop 2
__CPROVER_assigns(i, put_n, ghost_put_val, md_phase, ghost_phase)
__CPROVER_loop_invariant(i <= in->size && put_n == nzp + i && PHASE_IS(i) && STREAM_UPTO(put_n))
__CPROVER_decreases(in->size - i)
//@ loop 3
__CPROVER_assigns(c, put_n, ghost_put_val, md_phase, ghost_phase)
__CPROVER_loop_invariant(in->size <= c && put_n == nzp + c && STREAM_UPTO(put_n))
__CPROVER_loop_invariant(c <= cnt || c == in->size)
__CPROVER_loop_invariant(md_phase == 0 || c >= cnt)
__CPROVER_decreases(cnt > c ? cnt - c : 0)
//@ loop 4
__CPROVER_assigns(i, c, put_n, ghost_put_val, md_phase, ghost_phase)
__CPROVER_loop_invariant(i <= in->size && i <= c && c <= cnt && put_n == nzp + c && STREAM_UPTO(put_n))
__CPROVER_loop_invariant(PHASE_IS(i) && c == __CPROVER_loop_entry(c) + i)
__CPROVER_decreases(in->size - i)
//@ loop 5
__CPROVER_assigns(i, out->size, __CPROVER_object_whole(out->data))
__CPROVER_loop_invariant(i <= dlen && out->size == __CPROVER_loop_entry(out->size) + i)
__CPROVER_decreases(dlen - i)
//@ end
