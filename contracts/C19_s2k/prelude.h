#include "specdefs.h"
/* ---- libgcrypt message digest (assumed contract on the dependency) with a ghost monitor -----------------------
 * The digest is a function of the ORDERED octet stream handed over; what the property needs from this code is
 * which stream that is.  The monitor counts the octets put so far and records the one at the arbitrary (never
 * assigned) position ghost_p, so that a fact about "octet number ghost_p of the stream" is a fact about every
 * octet of the stream. */
typedef struct verif_md { int dummy; } *gcry_md_hd_t;
#define GCRY_MD_FLAG_SECURE 1
#define GPG_ERR_DIGEST_ALGO 5
size_t put_n; size_t ghost_p; unsigned char ghost_put_val;
/* (k - nzp) mod |input| is DEFINED here by counting (no division: every back end times out on a symbolic divisor):
 * md_phase is the number of input octets put so far modulo g_len, ghost_phase its value when octet ghost_p was put */
size_t g_len, g_nzp, md_phase, ghost_phase;
_Bool md_is_open, md_is_final;
static struct verif_md md_object;
static unsigned char md_digest[64];
static inline int AlgorithmHashGCRY(tmcg_openpgp_hashalgo_t algo) { (void)algo; int a; return a; }
static inline unsigned int gcry_md_get_algo_dlen(int a) { (void)a; unsigned int l; __CPROVER_assume(l <= 64); return l; }
static inline gcry_error_t gcry_md_open(gcry_md_hd_t *h, int a, unsigned int flags)
{ (void)a; (void)flags; gcry_error_t e; if (e != 0) { *h = 0; return e; } *h = &md_object; md_is_open = 1; md_is_final = 0; return 0; }
static inline void verif_gcry_md_putc(gcry_md_hd_t h, int c)
{
  __CPROVER_assert(h == &md_object && md_is_open && !md_is_final, "gcry_md_putc: the context is open and not finalised");
  if (put_n == ghost_p) { ghost_put_val = (unsigned char)(c & 0xff); ghost_phase = md_phase; }
  if (put_n >= g_nzp) { md_phase = md_phase + 1; if (md_phase >= g_len) md_phase = 0; }
  __CPROVER_assume(put_n + 1 > put_n);   /* ASSUMPTION: fewer than 2^64 octets are hashed */
  put_n = put_n + 1;
}
static inline void verif_gcry_md_final(gcry_md_hd_t h)
{ __CPROVER_assert(h == &md_object && md_is_open, "gcry_md_final: the context is open"); md_is_final = 1; }
static inline unsigned char *gcry_md_read(gcry_md_hd_t h, int a)
{ (void)a; __CPROVER_assert(h == &md_object && md_is_open, "gcry_md_read: the context is open"); md_is_final = 1;
  _Bool fail; return fail ? (unsigned char *)0 : md_digest; }
static inline void gcry_md_close(gcry_md_hd_t h) { __CPROVER_assert(h == &md_object && md_is_open, "gcry_md_close: the context is open"); md_is_open = 0; }
static inline gcry_error_t gcry_error(unsigned int code) { return code; }
