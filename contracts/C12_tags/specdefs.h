#ifndef C12_TAGS_SPECDEFS_H
#define C12_TAGS_SPECDEFS_H
#ifndef TCAP
#define TCAP ((size_t)1 << 33)   /* packet bodies of every size up to 2^33 octets (the wire format allows < 2^32); contents arbitrary at every read */
#endif
#define TVEC_OK(v) (__CPROVER_is_fresh((v), sizeof(*(v))) && (v)->cap == TCAP && (v)->size <= TCAP)
#define CTX_OK(c) (__CPROVER_is_fresh((c), sizeof(*(c))))
#endif
