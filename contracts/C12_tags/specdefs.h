#ifndef C12_TAGS_SPECDEFS_H
#define C12_TAGS_SPECDEFS_H
#ifndef TCAP
#define TCAP ((size_t)1 << 33)   /* packet bodies of every size up to 2^33 octets (the wire format allows < 2^32); contents arbitrary at every read */
#endif
#define TVEC_OK(v) (__CPROVER_is_fresh((v), sizeof(*(v))) && (v)->cap == TCAP && (v)->size <= TCAP)
#define CTX_OK(c) (__CPROVER_is_fresh((c), sizeof(*(c))))
/* type invariant of a packet context as far as the subpacket functions depend on it: a non-zero length field owns a
 * readable buffer of that length (FRESH form for entry points, RW form inside loops and after calls) */
#define MAXALLOC 2147483645UL   /* TMCG_OPENPGP_MAX_ALLOC */
#define CTX_BUFS_FRESH(c) ((c)->embeddedsignaturelen <= MAXALLOC && (c)->attestedcertificationslen <= MAXALLOC && \
  ((c)->embeddedsignaturelen == 0 || __CPROVER_is_fresh((c)->embeddedsignature, (c)->embeddedsignaturelen)) && \
  ((c)->attestedcertificationslen == 0 || __CPROVER_is_fresh((c)->attestedcertifications, (c)->attestedcertificationslen)))
#define CTX_BUFS_RW(c) ((c)->embeddedsignaturelen <= MAXALLOC && (c)->attestedcertificationslen <= MAXALLOC && \
  ((c)->embeddedsignaturelen == 0 || (__CPROVER_DYNAMIC_OBJECT((c)->embeddedsignature) && __CPROVER_r_ok((c)->embeddedsignature, (c)->embeddedsignaturelen))) && \
  ((c)->attestedcertificationslen == 0 || (__CPROVER_DYNAMIC_OBJECT((c)->attestedcertifications) && __CPROVER_r_ok((c)->attestedcertifications, (c)->attestedcertificationslen))))
#define CNT_OK(v) (__CPROVER_is_fresh((v), sizeof(*(v))) && (v)->size <= ((size_t)1 << 40))
#endif
