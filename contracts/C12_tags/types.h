typedef struct { void *data; size_t size; size_t cap; } notations_t; /* opaque here: only handed on to SubpacketParse */
typedef struct { void *data; size_t size; size_t cap; } vec_vec_u8; /* opaque here */
