typedef struct { void *data; size_t size; size_t cap; } notations_t; /* opaque here: only handed on to SubpacketParse */
typedef struct { void *data; size_t size; size_t cap; } vec_vec_u8; /* opaque here */
/* containers of the threshold-key packets (tag 5/7).  vec_mpi / vec_str: sizes exact, elements content-free (every
 * element access goes through one scratch cell).  vec_vec_mpi: a real array of rows (each row a sizes-only vec_mpi). */
typedef struct { gcry_mpi_t *data; size_t size; size_t cap; } vec_mpi;
typedef struct { void *data; size_t size; size_t cap; } vec_str;
typedef struct { vec_mpi *data; size_t size; size_t cap; } vec_vec_mpi;
/* notation = pair of octet strings; embedded signatures / fingerprints = vectors of octet strings: sizes only */
typedef struct { vec_u8 first; vec_u8 second; } pair_vec_u8_vec_u8;
