/* parts of the prelude that need the packet context type (copied from the header after prelude.h) */
static inline void tmcg_openpgp_packet_ctx_t__ctor_0(tmcg_openpgp_packet_ctx_t *c) { (void)c; }
/* memset(&ctx, 0, sizeof(ctx)): the only use in the functions under contract */
static const tmcg_openpgp_packet_ctx_t verif_zero_ctx;
static inline void *verif_memset_ctx(void *p, int c, size_t n)
{ __CPROVER_assert(c == 0 && n == sizeof(tmcg_openpgp_packet_ctx_t), "model limit: memset is used to zero one packet context"); *(tmcg_openpgp_packet_ctx_t *)p = verif_zero_ctx; return p; }
#define memset verif_memset_ctx
/* ASSUMED, not proved (DESIGN.md section 8): the signature-packet decoder; any result, any context */
unsigned char nondet_uchar(void);
static inline tmcg_openpgp_byte_t PacketDecodeTag2_s(vec_u8 *pkt, int verbose, tmcg_openpgp_packet_ctx_t *out, notations_t *notations, vec_vec_u8 *embeddedsigs, vec_vec_u8 *recipientfprs)
{ (void)pkt; (void)verbose; { tmcg_openpgp_packet_ctx_t h; *out = h; } notations->size = nondet_ulong(); embeddedsigs->size = nondet_ulong(); recipientfprs->size = nondet_ulong(); return nondet_uchar(); }
