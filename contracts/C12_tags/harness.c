void h_ivsk(void) { tmcg_openpgp_skalgo_t a; AlgorithmIVLength_sk(a); }
void h_ivaead(void) { tmcg_openpgp_aeadalgo_t a; AlgorithmIVLength_aead(a); }
void h_tag4(void) { vec_u8 *pkt; tmcg_openpgp_packet_ctx_t *out; tmcg_openpgp_byte_t r = PacketDecodeTag4(pkt, out);
  __CPROVER_assert(r != 4, "REACHABILITY-CANARY (must fail): a packet body exists that is decoded"); }
void h_tag8(void) { vec_u8 *pkt; tmcg_openpgp_packet_ctx_t *out; tmcg_openpgp_byte_t r = PacketDecodeTag8(pkt, out);
  __CPROVER_assert(r != 8, "REACHABILITY-CANARY (must fail): a packet body exists that is decoded"); }
void h_tag9(void) { vec_u8 *pkt; tmcg_openpgp_packet_ctx_t *out; tmcg_openpgp_byte_t r = PacketDecodeTag9(pkt, out);
  __CPROVER_assert(r != 9, "REACHABILITY-CANARY (must fail): a packet body exists that is decoded"); }
void h_tag10(void) { vec_u8 *pkt; tmcg_openpgp_packet_ctx_t *out; tmcg_openpgp_byte_t r = PacketDecodeTag10(pkt, out);
  __CPROVER_assert(r != 10, "REACHABILITY-CANARY (must fail): a packet body exists that is decoded"); }
void h_tag11(void) { vec_u8 *pkt; tmcg_openpgp_packet_ctx_t *out; tmcg_openpgp_byte_t r = PacketDecodeTag11(pkt, out);
  __CPROVER_assert(r != 11, "REACHABILITY-CANARY (must fail): a packet body exists that is decoded"); }
void h_tag13(void) { vec_u8 *pkt; tmcg_openpgp_packet_ctx_t *out; tmcg_openpgp_byte_t r = PacketDecodeTag13(pkt, out);
  __CPROVER_assert(r != 13, "REACHABILITY-CANARY (must fail): a packet body exists that is decoded"); }
void h_tag17(void) { vec_u8 *pkt; tmcg_openpgp_packet_ctx_t *out; tmcg_openpgp_byte_t r = PacketDecodeTag17(pkt, out);
  __CPROVER_assert(r != 17, "REACHABILITY-CANARY (must fail): a packet body exists that is decoded"); }
void h_tag18(void) { vec_u8 *pkt; tmcg_openpgp_packet_ctx_t *out; tmcg_openpgp_byte_t r = PacketDecodeTag18(pkt, out);
  __CPROVER_assert(r != 18, "REACHABILITY-CANARY (must fail): a packet body exists that is decoded"); }
void h_tag19(void) { vec_u8 *pkt; tmcg_openpgp_packet_ctx_t *out; tmcg_openpgp_byte_t r = PacketDecodeTag19(pkt, out);
  __CPROVER_assert(r != 19, "REACHABILITY-CANARY (must fail): a packet body exists that is decoded"); }
void h_tag20(void) { vec_u8 *pkt; tmcg_openpgp_packet_ctx_t *out; tmcg_openpgp_byte_t r = PacketDecodeTag20(pkt, out);
  __CPROVER_assert(r != 20, "REACHABILITY-CANARY (must fail): a packet body exists that is decoded"); }
void h_tag1(void) { vec_u8 *pkt; tmcg_openpgp_packet_ctx_t *out; tmcg_openpgp_byte_t r = PacketDecodeTag1(pkt, out);
  __CPROVER_assert(r != 1, "REACHABILITY-CANARY (must fail): a packet body exists that is decoded"); }
void h_tag3(void) { vec_u8 *pkt; tmcg_openpgp_packet_ctx_t *out; tmcg_openpgp_byte_t r = PacketDecodeTag3(pkt, out);
  __CPROVER_assert(r != 3, "REACHABILITY-CANARY (must fail): a packet body exists that is decoded"); }
void h_tag614(void) { vec_u8 *pkt; tmcg_openpgp_packet_ctx_t *out; tmcg_openpgp_byte_t tag; tmcg_openpgp_byte_t r = PacketDecodeTag614(pkt, tag, out);
  __CPROVER_assert(r != 6 || tag != 6, "REACHABILITY-CANARY (must fail): a packet body exists that is decoded"); }
void h_subdecode(void) { vec_u8 *in; int verbose; tmcg_openpgp_packet_ctx_t *out; tmcg_openpgp_byte_t r = SubpacketDecode(in, verbose, out);
  __CPROVER_assert(r != 32, "REACHABILITY-CANARY (must fail): an embedded-signature subpacket is decoded"); }
void h_tag57(void) { vec_u8 *pkt; tmcg_openpgp_packet_ctx_t *out; tmcg_openpgp_byte_t tag; vec_mpi *qual, *xq, *v_i; vec_str *capl; vec_vec_mpi *c_ik;
  tmcg_openpgp_byte_t r = PacketDecodeTag57(pkt, tag, out, qual, xq, capl, v_i, c_ik);
  __CPROVER_assert(r != 5 || tag != 5, "REACHABILITY-CANARY (must fail): a packet body exists that is decoded"); }
void h_lendec(void) { vec_u8 *in; _Bool nf; tmcg_openpgp_byte_t lt; uint32_t *len; _Bool *pl; size_t r = PacketLengthDecode(in, nf, lt, len, pl);
  __CPROVER_assert(r != 5, "REACHABILITY-CANARY (must fail): a five-octet length exists"); }
void h_bodyextract(void) { vec_u8 *in, *out; int verbose; tmcg_openpgp_byte_t r = PacketBodyExtract(in, verbose, out);
  __CPROVER_assert(r != 11, "REACHABILITY-CANARY (must fail): a literal data packet is extracted"); }
void h_pktdecode(void) { vec_u8 *in, *cur; int verbose; tmcg_openpgp_packet_ctx_t *out; vec_mpi *qual, *xq, *v_i; vec_str *capl; vec_vec_mpi *c_ik; notations_t *n; vec_vec_u8 *e, *r;
  tmcg_openpgp_byte_t t = PacketDecode(in, verbose, out, cur, qual, xq, capl, v_i, c_ik, n, e, r);
  __CPROVER_assert(t != 6, "REACHABILITY-CANARY (must fail): a public-key packet is decoded"); }
void h_subparse(void) { vec_u8 *in; int verbose; tmcg_openpgp_packet_ctx_t *out; notations_t *n; vec_vec_u8 *e, *r; tmcg_openpgp_byte_t t = SubpacketParse(in, verbose, out, n, e, r);
  __CPROVER_assert(t != 2, "REACHABILITY-CANARY (must fail): an area exists that is parsed completely"); }
