//@ function AlgorithmIVLength_sk
//@ contract
__CPROVER_assigns()
__CPROVER_ensures(__CPROVER_return_value == 0 || __CPROVER_return_value == 8 || __CPROVER_return_value == 16)
//@ end

//@ function AlgorithmIVLength_aead
//@ contract
__CPROVER_assigns()
__CPROVER_ensures(__CPROVER_return_value == 0 || __CPROVER_return_value == 15 || __CPROVER_return_value == 16)
//@ end

//@ function PacketDecodeTag4
//@ contract
/* C12: for every packet body (any length, any octets) and any previous state of the context the decoder
 * returns a verdict; every read of the body and every write into the context stays in bounds (obligations in the body) */
__CPROVER_requires(TVEC_OK(pkt) && CTX_OK(out))
__CPROVER_assigns(*out, tmcg_openpgp_mem_alloc, vec_u8__cell)
__CPROVER_ensures(__CPROVER_return_value == 0 || __CPROVER_return_value == 0xFE || __CPROVER_return_value == 4)
//@ loop 1
__CPROVER_assigns(i, vec_u8__cell, __CPROVER_object_upto(out->signingkeyid, 8))
__CPROVER_loop_invariant(i <= 8)
__CPROVER_decreases(8 - i)
//@ end

//@ function PacketDecodeTag8
//@ contract
/* C12: for every packet body (any length, any octets) and any previous state of the context the decoder
 * returns a verdict; every read of the body and every write into the context stays in bounds (obligations in the body) */
__CPROVER_requires(TVEC_OK(pkt) && CTX_OK(out))
__CPROVER_assigns(*out, tmcg_openpgp_mem_alloc, vec_u8__cell)
__CPROVER_ensures(__CPROVER_return_value == 0 || __CPROVER_return_value == 0xFE || __CPROVER_return_value == 8)
//@ loop 1
__CPROVER_assigns(i, vec_u8__cell, __CPROVER_object_whole(out->compdata))
__CPROVER_loop_invariant(i <= out->compdatalen)
__CPROVER_decreases(out->compdatalen - i)
//@ end

//@ function PacketDecodeTag9
//@ contract
/* C12: for every packet body (any length, any octets) and any previous state of the context the decoder
 * returns a verdict; every read of the body and every write into the context stays in bounds (obligations in the body) */
__CPROVER_requires(TVEC_OK(pkt) && CTX_OK(out))
__CPROVER_assigns(*out, tmcg_openpgp_mem_alloc, vec_u8__cell)
__CPROVER_ensures(__CPROVER_return_value == 0 || __CPROVER_return_value == 0xFE || __CPROVER_return_value == 9)
//@ loop 1
__CPROVER_assigns(i, vec_u8__cell, __CPROVER_object_whole(out->encdata))
__CPROVER_loop_invariant(i <= out->encdatalen)
__CPROVER_decreases(out->encdatalen - i)
//@ end

//@ function PacketDecodeTag10
//@ contract
/* C12: for every packet body (any length, any octets) and any previous state of the context the decoder
 * returns a verdict; every read of the body and every write into the context stays in bounds (obligations in the body) */
__CPROVER_requires(TVEC_OK(pkt) && CTX_OK(out))
__CPROVER_assigns(*out, tmcg_openpgp_mem_alloc, vec_u8__cell)
__CPROVER_ensures(__CPROVER_return_value == 0 || __CPROVER_return_value == 0xFE || __CPROVER_return_value == 10)
//@ end

//@ function PacketDecodeTag11
//@ contract
/* C12: for every packet body (any length, any octets) and any previous state of the context the decoder
 * returns a verdict; every read of the body and every write into the context stays in bounds (obligations in the body) */
__CPROVER_requires(TVEC_OK(pkt) && CTX_OK(out))
__CPROVER_assigns(*out, tmcg_openpgp_mem_alloc, vec_u8__cell)
__CPROVER_ensures(__CPROVER_return_value == 0 || __CPROVER_return_value == 0xFE || __CPROVER_return_value == 11)
//@ loop 1
__CPROVER_assigns(i, vec_u8__cell, __CPROVER_object_upto(out->datafilename, 2048))
__CPROVER_loop_invariant(i <= out->datafilenamelen)
__CPROVER_decreases(out->datafilenamelen - i)
//@ loop 2
__CPROVER_assigns(i, vec_u8__cell, __CPROVER_object_whole(out->data))
__CPROVER_loop_invariant(i <= out->datalen)
__CPROVER_decreases(out->datalen - i)
//@ end

//@ function PacketDecodeTag13
//@ contract
/* C12: for every packet body (any length, any octets) and any previous state of the context the decoder
 * returns a verdict; every read of the body and every write into the context stays in bounds (obligations in the body) */
__CPROVER_requires(TVEC_OK(pkt) && CTX_OK(out))
__CPROVER_assigns(*out, tmcg_openpgp_mem_alloc, vec_u8__cell)
__CPROVER_ensures(__CPROVER_return_value == 0 || __CPROVER_return_value == 0xFE || __CPROVER_return_value == 13)
//@ loop 1
__CPROVER_assigns(i, vec_u8__cell, __CPROVER_object_whole(out->uiddata))
__CPROVER_loop_invariant(i <= out->uiddatalen)
__CPROVER_decreases(out->uiddatalen - i)
//@ end

//@ function PacketDecodeTag17
//@ contract
/* C12: for every packet body (any length, any octets) and any previous state of the context the decoder
 * returns a verdict; every read of the body and every write into the context stays in bounds (obligations in the body) */
__CPROVER_requires(TVEC_OK(pkt) && CTX_OK(out))
__CPROVER_assigns(*out, tmcg_openpgp_mem_alloc, vec_u8__cell)
__CPROVER_ensures(__CPROVER_return_value == 0 || __CPROVER_return_value == 0xFE || __CPROVER_return_value == 17)
//@ loop 1
__CPROVER_assigns(i, vec_u8__cell, __CPROVER_object_whole(out->uatdata))
__CPROVER_loop_invariant(i <= out->uatdatalen)
__CPROVER_decreases(out->uatdatalen - i)
//@ end

//@ function PacketDecodeTag18
//@ contract
/* C12: for every packet body (any length, any octets) and any previous state of the context the decoder
 * returns a verdict; every read of the body and every write into the context stays in bounds (obligations in the body) */
__CPROVER_requires(TVEC_OK(pkt) && CTX_OK(out))
__CPROVER_assigns(*out, tmcg_openpgp_mem_alloc, vec_u8__cell)
__CPROVER_ensures(__CPROVER_return_value == 0 || __CPROVER_return_value == 0xFE || __CPROVER_return_value == 18)
//@ loop 1
__CPROVER_assigns(i, vec_u8__cell, __CPROVER_object_whole(out->encdata))
__CPROVER_loop_invariant(i <= out->encdatalen)
__CPROVER_decreases(out->encdatalen - i)
//@ end

//@ function PacketDecodeTag19
//@ contract
/* C12: for every packet body (any length, any octets) and any previous state of the context the decoder
 * returns a verdict; every read of the body and every write into the context stays in bounds (obligations in the body) */
__CPROVER_requires(TVEC_OK(pkt) && CTX_OK(out))
__CPROVER_assigns(*out, tmcg_openpgp_mem_alloc, vec_u8__cell)
__CPROVER_ensures(__CPROVER_return_value == 0 || __CPROVER_return_value == 0xFE || __CPROVER_return_value == 19)
//@ loop 1
__CPROVER_assigns(i, vec_u8__cell, __CPROVER_object_upto(out->mdc_hash, 20))
__CPROVER_loop_invariant(i <= (size_t)20)
__CPROVER_decreases((size_t)20 - i)
//@ end

//@ function PacketDecodeTag20
//@ contract
/* C12: for every packet body (any length, any octets) and any previous state of the context the decoder
 * returns a verdict; every read of the body and every write into the context stays in bounds (obligations in the body) */
__CPROVER_requires(TVEC_OK(pkt) && CTX_OK(out))
__CPROVER_assigns(*out, tmcg_openpgp_mem_alloc, vec_u8__cell)
__CPROVER_ensures(__CPROVER_return_value == 0 || __CPROVER_return_value == 0xFE || __CPROVER_return_value == 20)
//@ loop 1
__CPROVER_assigns(i, vec_u8__cell, __CPROVER_object_upto(out->iv, 32))
__CPROVER_loop_invariant(i <= ivlen)
__CPROVER_decreases(ivlen - i)
//@ loop 2
__CPROVER_assigns(i, vec_u8__cell, __CPROVER_object_whole(out->encdata))
__CPROVER_loop_invariant(i <= out->encdatalen)
__CPROVER_decreases(out->encdatalen - i)
//@ end

//@ function PacketDecodeTag1
//@ contract
__CPROVER_requires(TVEC_OK(pkt) && CTX_OK(out))
__CPROVER_assigns(*out, tmcg_openpgp_mem_alloc, vec_u8__cell)
__CPROVER_ensures(__CPROVER_return_value == 0 || __CPROVER_return_value == 0xFE || __CPROVER_return_value == 1)
//@ loop 1
__CPROVER_assigns(i, vec_u8__cell, __CPROVER_object_upto(out->keyid, 8))
__CPROVER_loop_invariant(i <= 8)
__CPROVER_decreases(8 - i)
//@ loop 2
__CPROVER_assigns(i, vec_u8__cell, __CPROVER_object_upto(out->rkw, 256))
__CPROVER_loop_invariant(i <= out->rkwlen && out->rkwlen < 255 && mpis.size >= out->rkwlen + 1)
__CPROVER_decreases(out->rkwlen - i)
//@ end

//@ function PacketDecodeTag3
//@ contract
__CPROVER_requires(TVEC_OK(pkt) && CTX_OK(out))
__CPROVER_assigns(*out, tmcg_openpgp_mem_alloc, vec_u8__cell)
__CPROVER_ensures(__CPROVER_return_value == 0 || __CPROVER_return_value == 0xFE || __CPROVER_return_value == 3)
//@ loop 1
__CPROVER_assigns(i, vec_u8__cell, __CPROVER_object_whole(out->encdata))
__CPROVER_loop_invariant(i <= out->encdatalen)
__CPROVER_decreases(out->encdatalen - i)
//@ loop 2
__CPROVER_assigns(i, vec_u8__cell, __CPROVER_object_upto(out->s2k_salt, 8))
__CPROVER_loop_invariant(i <= 8)
__CPROVER_decreases(8 - i)
//@ loop 3
__CPROVER_assigns(i, vec_u8__cell, __CPROVER_object_whole(out->encdata))
__CPROVER_loop_invariant(i <= out->encdatalen)
__CPROVER_decreases(out->encdatalen - i)
//@ loop 4
__CPROVER_assigns(i, vec_u8__cell, __CPROVER_object_upto(out->s2k_salt, 8))
__CPROVER_loop_invariant(i <= 8)
__CPROVER_decreases(8 - i)
//@ loop 5
__CPROVER_assigns(i, vec_u8__cell, __CPROVER_object_whole(out->encdata))
__CPROVER_loop_invariant(i <= out->encdatalen)
__CPROVER_decreases(out->encdatalen - i)
//@ loop 6
__CPROVER_assigns(i, vec_u8__cell, __CPROVER_object_upto(out->iv, 32))
__CPROVER_loop_invariant(i <= ivlen && ivlen <= 32)
__CPROVER_decreases(ivlen - i)
//@ loop 7
__CPROVER_assigns(i, vec_u8__cell, __CPROVER_object_whole(out->encdata))
__CPROVER_loop_invariant(i <= out->encdatalen)
__CPROVER_decreases(out->encdatalen - i)
//@ loop 8
__CPROVER_assigns(i, vec_u8__cell, __CPROVER_object_upto(out->s2k_salt, 8))
__CPROVER_loop_invariant(i <= 8)
__CPROVER_decreases(8 - i)
//@ loop 9
__CPROVER_assigns(i, vec_u8__cell, __CPROVER_object_upto(out->iv, 32))
__CPROVER_loop_invariant(i <= ivlen && ivlen <= 32)
__CPROVER_decreases(ivlen - i)
//@ loop 10
__CPROVER_assigns(i, vec_u8__cell, __CPROVER_object_whole(out->encdata))
__CPROVER_loop_invariant(i <= out->encdatalen)
__CPROVER_decreases(out->encdatalen - i)
//@ loop 11
__CPROVER_assigns(i, vec_u8__cell, __CPROVER_object_upto(out->s2k_salt, 8))
__CPROVER_loop_invariant(i <= 8)
__CPROVER_decreases(8 - i)
//@ loop 12
__CPROVER_assigns(i, vec_u8__cell, __CPROVER_object_upto(out->iv, 32))
__CPROVER_loop_invariant(i <= ivlen && ivlen <= 32)
__CPROVER_decreases(ivlen - i)
//@ loop 13
__CPROVER_assigns(i, vec_u8__cell, __CPROVER_object_whole(out->encdata))
__CPROVER_loop_invariant(i <= out->encdatalen)
__CPROVER_decreases(out->encdatalen - i)
//@ end

//@ function PacketDecodeTag614
//@ contract
__CPROVER_requires(TVEC_OK(pkt) && CTX_OK(out))
__CPROVER_assigns(*out, tmcg_openpgp_mem_alloc, vec_u8__cell)
__CPROVER_ensures(__CPROVER_return_value == 0 || __CPROVER_return_value == 0xFE || __CPROVER_return_value == 0xFD || __CPROVER_return_value == tag)
//@ loop 1
__CPROVER_assigns(i, vec_u8__cell, __CPROVER_object_upto(out->curveoid, 256))
__CPROVER_loop_invariant(i <= out->curveoidlen)
__CPROVER_decreases(out->curveoidlen - i)
//@ loop 2
__CPROVER_assigns(i, vec_u8__cell, __CPROVER_object_upto(out->curveoid, 256))
__CPROVER_loop_invariant(i <= out->curveoidlen)
__CPROVER_decreases(out->curveoidlen - i)
//@ end

//@ function SubpacketDecode
//@ contract
/* C12: one signature subpacket is taken off the front of an area of ANY length and content.  Memory safe; the area
 * never grows; and a subpacket is reported (non-zero) only if at least two octets were consumed -- the progress that
 * makes SubpacketParse terminate. */
__CPROVER_requires(TVEC_OK(in) && CTX_OK(out))
/* type invariant of a packet context: a non-zero length field owns a heap buffer of that length */
__CPROVER_requires(CTX_BUFS_FRESH(out))
/* invariant of the library's allocation guard: the running total never exceeds its limit */
__CPROVER_requires(tmcg_openpgp_mem_alloc <= MAXALLOC && out->embeddedsignaturelen + out->attestedcertificationslen <= tmcg_openpgp_mem_alloc)   /* the total accounts for the buffers the context owns */
__CPROVER_assigns(*out, in->size, tmcg_openpgp_mem_alloc, vec_u8__cell)
__CPROVER_frees(out->embeddedsignaturelen > 0: out->embeddedsignature; out->attestedcertificationslen > 0: out->attestedcertifications)
__CPROVER_ensures(in->size <= __CPROVER_old(in->size))
__CPROVER_ensures(__CPROVER_return_value != 0 ==> in->size + 2 <= __CPROVER_old(in->size))
__CPROVER_ensures(__CPROVER_return_value == 0 ==> in->size == __CPROVER_old(in->size))
/* what SubpacketParse relies on: the length fields describe what was stored; an embedded-signature subpacket leaves a
 * freshly allocated buffer of the stated length */
__CPROVER_ensures(__CPROVER_return_value == 32 ==> (out->embeddedsignaturelen <= MAXALLOC && (out->embeddedsignaturelen == 0 || __CPROVER_is_fresh(out->embeddedsignature, out->embeddedsignaturelen))))
__CPROVER_ensures(out->embeddedsignaturelen <= MAXALLOC && (out->embeddedsignaturelen == 0 || __CPROVER_r_ok(out->embeddedsignature, out->embeddedsignaturelen)))
__CPROVER_ensures(__CPROVER_return_value != 0 ==> ((out->notation_name_length <= sizeof(out->notation_name) || out->notation_name_length == __CPROVER_old(out->notation_name_length)) &&
   (out->notation_value_length <= sizeof(out->notation_value) || out->notation_value_length == __CPROVER_old(out->notation_value_length))))
//@ loop 1
__CPROVER_assigns(i, vec_u8__cell, __CPROVER_object_upto(out->trustregex, sizeof(out->trustregex)))
__CPROVER_loop_invariant(i <= pkt.size)
__CPROVER_decreases(pkt.size - i)
//@ loop 2
__CPROVER_assigns(i, vec_u8__cell, __CPROVER_object_upto(out->psa, sizeof(out->psa)))
__CPROVER_loop_invariant(i <= pkt.size)
__CPROVER_decreases(pkt.size - i)
//@ loop 3
__CPROVER_assigns(i, vec_u8__cell, __CPROVER_object_upto(out->revocationkey_fingerprint, sizeof(out->revocationkey_fingerprint)))
__CPROVER_loop_invariant(i <= (pkt.size - 2))
__CPROVER_decreases((pkt.size - 2) - i)
//@ loop 4
__CPROVER_assigns(i, vec_u8__cell, __CPROVER_object_upto(out->issuer, sizeof(out->issuer)))
__CPROVER_loop_invariant(i <= 8)
__CPROVER_decreases(8 - i)
//@ loop 5
__CPROVER_assigns(i, vec_u8__cell, __CPROVER_object_upto(out->notation_name, sizeof(out->notation_name)))
__CPROVER_loop_invariant(i <= out->notation_name_length)
__CPROVER_decreases(out->notation_name_length - i)
//@ loop 6
__CPROVER_assigns(i, vec_u8__cell, __CPROVER_object_upto(out->notation_value, sizeof(out->notation_value)))
__CPROVER_loop_invariant(i <= out->notation_value_length)
__CPROVER_decreases(out->notation_value_length - i)
//@ loop 7
__CPROVER_assigns(i, vec_u8__cell, __CPROVER_object_upto(out->pha, sizeof(out->pha)))
__CPROVER_loop_invariant(i <= pkt.size)
__CPROVER_decreases(pkt.size - i)
//@ loop 8
__CPROVER_assigns(i, vec_u8__cell, __CPROVER_object_upto(out->pca, sizeof(out->pca)))
__CPROVER_loop_invariant(i <= pkt.size)
__CPROVER_decreases(pkt.size - i)
//@ loop 9
__CPROVER_assigns(i, vec_u8__cell, __CPROVER_object_upto(out->keyserverpreferences, sizeof(out->keyserverpreferences)))
__CPROVER_loop_invariant(i <= pkt.size)
__CPROVER_decreases(pkt.size - i)
//@ loop 10
__CPROVER_assigns(i, vec_u8__cell, __CPROVER_object_upto(out->preferedkeyserver, sizeof(out->preferedkeyserver)))
__CPROVER_loop_invariant(i <= pkt.size)
__CPROVER_decreases(pkt.size - i)
//@ loop 11
__CPROVER_assigns(i, vec_u8__cell, __CPROVER_object_upto(out->policyuri, sizeof(out->policyuri)))
__CPROVER_loop_invariant(i <= pkt.size)
__CPROVER_decreases(pkt.size - i)
//@ loop 12
__CPROVER_assigns(i, vec_u8__cell, __CPROVER_object_upto(out->keyflags, sizeof(out->keyflags)))
__CPROVER_loop_invariant(i <= pkt.size)
__CPROVER_decreases(pkt.size - i)
//@ loop 13
__CPROVER_assigns(i, vec_u8__cell, __CPROVER_object_upto(out->signersuserid, sizeof(out->signersuserid)))
__CPROVER_loop_invariant(i <= pkt.size)
__CPROVER_decreases(pkt.size - i)
//@ loop 14
__CPROVER_assigns(i, vec_u8__cell, __CPROVER_object_upto(out->revocationreason, sizeof(out->revocationreason)))
__CPROVER_loop_invariant(i <= (pkt.size - 1))
__CPROVER_decreases((pkt.size - 1) - i)
//@ loop 15
__CPROVER_assigns(i, vec_u8__cell, __CPROVER_object_upto(out->features, sizeof(out->features)))
__CPROVER_loop_invariant(i <= pkt.size)
__CPROVER_decreases(pkt.size - i)
//@ loop 16
__CPROVER_assigns(i, vec_u8__cell, __CPROVER_object_upto(out->signaturetarget_hash, sizeof(out->signaturetarget_hash)))
__CPROVER_loop_invariant(i <= (pkt.size - 2))
__CPROVER_decreases((pkt.size - 2) - i)
//@ loop 17
__CPROVER_assigns(i, vec_u8__cell, __CPROVER_object_whole(out->embeddedsignature))
__CPROVER_loop_invariant(i <= pkt.size)
__CPROVER_decreases(pkt.size - i)
//@ loop 18
__CPROVER_assigns(i, vec_u8__cell, __CPROVER_object_upto(out->issuerfingerprint, sizeof(out->issuerfingerprint)))
__CPROVER_loop_invariant(i <= 20)
__CPROVER_decreases(20 - i)
//@ loop 19
__CPROVER_assigns(i, vec_u8__cell, __CPROVER_object_upto(out->issuerfingerprint, sizeof(out->issuerfingerprint)))
__CPROVER_loop_invariant(i <= 32)
__CPROVER_decreases(32 - i)
//@ loop 20
__CPROVER_assigns(i, vec_u8__cell, __CPROVER_object_upto(out->paa, sizeof(out->paa)))
__CPROVER_loop_invariant(i <= pkt.size)
__CPROVER_decreases(pkt.size - i)
//@ loop 21
__CPROVER_assigns(i, vec_u8__cell, __CPROVER_object_upto(out->recipientfingerprint, sizeof(out->recipientfingerprint)))
__CPROVER_loop_invariant(i <= 20)
__CPROVER_decreases(20 - i)
//@ loop 22
__CPROVER_assigns(i, vec_u8__cell, __CPROVER_object_upto(out->recipientfingerprint, sizeof(out->recipientfingerprint)))
__CPROVER_loop_invariant(i <= 32)
__CPROVER_decreases(32 - i)
//@ loop 23
__CPROVER_assigns(i, vec_u8__cell, __CPROVER_object_whole(out->attestedcertifications))
__CPROVER_loop_invariant(i <= pkt.size)
__CPROVER_decreases(pkt.size - i)
//@ end

//@ function PacketDecodeTag57
//@ contract
/* C12: a secret-key / secret-subkey packet body of any length and content (also the threshold-key formats with their
 * vectors of MPIs and strings) is decoded or refused without any out-of-range index, iterator range or copy */
__CPROVER_requires(TVEC_OK(pkt) && CTX_OK(out) && VV_OK(c_ik))
__CPROVER_requires(__CPROVER_is_fresh(qual, sizeof(*qual)) && __CPROVER_is_fresh(x_rvss_qual, sizeof(*x_rvss_qual)) && __CPROVER_is_fresh(capl, sizeof(*capl)) && __CPROVER_is_fresh(v_i, sizeof(*v_i)))
__CPROVER_assigns(*out, *qual, *x_rvss_qual, *capl, *v_i, c_ik->size, __CPROVER_object_whole(c_ik->data), T57_SCRATCH)
__CPROVER_ensures(__CPROVER_return_value == 0 || __CPROVER_return_value == 0xFE || __CPROVER_return_value == 0xFD || __CPROVER_return_value == tag)
//@ loop 1
__CPROVER_assigns(i, vec_u8__cell, __CPROVER_object_upto(out->curveoid, 256))
__CPROVER_loop_invariant(i <= out->curveoidlen)
__CPROVER_decreases(out->curveoidlen - i)
//@ loop 2
__CPROVER_assigns(i, vec_u8__cell, __CPROVER_object_upto(out->curveoid, 256))
__CPROVER_loop_invariant(i <= out->curveoidlen)
__CPROVER_decreases(out->curveoidlen - i)
//@ loop 3
__CPROVER_assigns(j, mlen, mpis.size, vec_u8__cell, vec_mpi__cell)
__CPROVER_loop_invariant(mpis.size <= TCAP && j <= qs && qual->size == qs)
__CPROVER_decreases(qs - j)
//@ loop 4
__CPROVER_assigns(j, mlen, mpis.size, vec_u8__cell, vec_mpi__cell)
__CPROVER_loop_invariant(mpis.size <= TCAP && j <= xqs && x_rvss_qual->size == xqs)
__CPROVER_decreases(xqs - j)
//@ loop 5
__CPROVER_assigns(j, mlen, mpis.size, vec_u8__cell, capl->size)
__CPROVER_loop_invariant(mpis.size <= TCAP && j <= n && capl->size == j)
__CPROVER_decreases(n - j)
//@ loop 6
__CPROVER_assigns(j, mlen, mpis.size, vec_u8__cell, vec_mpi__cell, __CPROVER_object_whole(c_ik->data))
__CPROVER_loop_invariant(mpis.size <= TCAP && j <= n && c_ik->size == n)
__CPROVER_decreases(n - j)
//@ loop 7
__CPROVER_assigns(k, mlen, mpis.size, vec_u8__cell, vec_mpi__cell)
__CPROVER_loop_invariant(mpis.size <= TCAP && k <= t + 1 && j < n && c_ik->size == n && c_ik->data[j].size == t + 1)
__CPROVER_decreases(t + 1 - k)
//@ loop 8
__CPROVER_assigns(j, mlen, mpis.size, vec_u8__cell, vec_mpi__cell)
__CPROVER_loop_invariant(mpis.size <= TCAP && j <= qs && qual->size == qs)
__CPROVER_decreases(qs - j)
//@ loop 9
__CPROVER_assigns(j, mlen, mpis.size, vec_u8__cell, capl->size)
__CPROVER_loop_invariant(mpis.size <= TCAP && j <= qs && capl->size == j)
__CPROVER_decreases(qs - j)
//@ loop 10
__CPROVER_assigns(j, mlen, mpis.size, vec_u8__cell, vec_mpi__cell, __CPROVER_object_whole(c_ik->data))
__CPROVER_loop_invariant(mpis.size <= TCAP && j <= n && c_ik->size == n)
__CPROVER_decreases(n - j)
//@ loop 11
__CPROVER_assigns(k, mlen, mpis.size, vec_u8__cell, vec_mpi__cell)
__CPROVER_loop_invariant(mpis.size <= TCAP && k <= t + 1 && j < n && c_ik->size == n && c_ik->data[j].size == t + 1)
__CPROVER_decreases(t + 1 - k)
//@ loop 12
__CPROVER_assigns(j, mlen, mpis.size, vec_u8__cell, vec_mpi__cell)
__CPROVER_loop_invariant(mpis.size <= TCAP && j <= qs && qual->size == qs)
__CPROVER_decreases(qs - j)
//@ loop 13
__CPROVER_assigns(j, mlen, mpis.size, vec_u8__cell, vec_mpi__cell)
__CPROVER_loop_invariant(mpis.size <= TCAP && j <= n && v_i->size == n)
__CPROVER_decreases(n - j)
//@ loop 14
__CPROVER_assigns(j, mlen, mpis.size, vec_u8__cell, vec_mpi__cell, __CPROVER_object_whole(c_ik->data))
__CPROVER_loop_invariant(mpis.size <= TCAP && j <= n && c_ik->size == n)
__CPROVER_decreases(n - j)
//@ loop 15
__CPROVER_assigns(k, mlen, mpis.size, vec_u8__cell, vec_mpi__cell)
__CPROVER_loop_invariant(mpis.size <= TCAP && k <= t + 1 && j < n && c_ik->size == n && c_ik->data[j].size == t + 1)
__CPROVER_decreases(t + 1 - k)
//@ loop 16
__CPROVER_assigns(i, vec_u8__cell, smpis.size)
__CPROVER_loop_invariant(i <= mpis.size && smpis.size == i)
__CPROVER_decreases(mpis.size - i)
//@ loop 17
__CPROVER_assigns(i, vec_u8__cell, __CPROVER_object_upto(out->s2k_salt, 8))
__CPROVER_loop_invariant(i <= 8)
__CPROVER_decreases(8 - i)
//@ loop 18
__CPROVER_assigns(i, vec_u8__cell, __CPROVER_object_upto(out->s2k_salt, 8))
__CPROVER_loop_invariant(i <= 8)
__CPROVER_decreases(8 - i)
//@ loop 19
__CPROVER_assigns(i, vec_u8__cell, __CPROVER_object_upto(out->iv, 32))
__CPROVER_loop_invariant(i <= ivlen && ivlen <= 32)
__CPROVER_decreases(ivlen - i)
//@ loop 20
__CPROVER_assigns(i, vec_u8__cell, __CPROVER_object_whole(out->encdata))
__CPROVER_loop_invariant(i <= out->encdatalen)
__CPROVER_decreases(out->encdatalen - i)
//@ end

//@ function PacketLengthDecode
//@ contract
/* size-only reading of RFC 4880 4.2 (the exact octet-level contract is proved in C19_codecs): a header of 1, 2, 4 or
 * 5 octets that the input holds, 42 for the old-format indeterminate length (body = the rest), 0 for refusal; a
 * partial body length is a one-octet new-format header announcing at least one octet */
__CPROVER_requires(TVEC_OK(in) && __CPROVER_is_fresh(len, sizeof(*len)) && __CPROVER_is_fresh(partlen, sizeof(*partlen)))
__CPROVER_assigns(*len, *partlen, vec_u8__cell)
__CPROVER_ensures(__CPROVER_return_value == 0 || __CPROVER_return_value == 1 || __CPROVER_return_value == 2 || __CPROVER_return_value == 4 || __CPROVER_return_value == 5 || __CPROVER_return_value == 42)
__CPROVER_ensures((__CPROVER_return_value != 0 && __CPROVER_return_value != 42) ==> __CPROVER_return_value <= in->size)
__CPROVER_ensures(__CPROVER_return_value == 42 ==> (*len == (uint32_t)in->size && !*partlen))
__CPROVER_ensures((__CPROVER_return_value != 0 && *partlen) ==> (__CPROVER_return_value == 1 && *len >= 1 && newformat))
//@ end

//@ function PacketBodyExtract
//@ contract
/* C12: the body of one packet (all partial chunks) is extracted from input of any length and content, or refused;
 * memory safe (every iterator range lies inside its vector) and TERMINATING: every further round of the
 * partial-length loop has consumed at least one octet */
__CPROVER_requires(TVEC_OK(in) && TVEC_OK(out) && in->size <= ((size_t)1 << 32) && out->size <= ((size_t)1 << 32))
__CPROVER_assigns(out->size, vec_u8__cell)
__CPROVER_ensures(out->size >= __CPROVER_old(out->size) && out->size - __CPROVER_old(out->size) <= in->size)
//@ loop 1
__CPROVER_assigns(len, partlen, firstlen, work.size, out->size, vec_u8__cell)
__CPROVER_loop_invariant(work.size <= in->size && out->size >= __CPROVER_loop_entry(out->size) && out->size - __CPROVER_loop_entry(out->size) <= __CPROVER_loop_entry(work.size) - work.size && work.size <= __CPROVER_loop_entry(work.size))
__CPROVER_decreases(work.size + (partlen ? 1 : 0))
//@ end

//@ function PacketDecode
//@ contract
/* C12: one packet is taken off the front of input of ANY length and content and dispatched to its body decoder (the
 * decoders are used through their contracts; tag 2 is an assumed stub).  Memory safe, every iterator range inside its
 * vector, every body decoder called within its precondition, and TERMINATING (partial-length loop). */
__CPROVER_requires(TVEC_OK(in) && in->size <= ((size_t)1 << 32) && CTX_OK(out) && TVEC_OK(current_packet) && current_packet->size <= ((size_t)1 << 32))
__CPROVER_requires(VV_OK(c_ik) && __CPROVER_is_fresh(qual, sizeof(*qual)) && __CPROVER_is_fresh(x_rvss_qual, sizeof(*x_rvss_qual)) && __CPROVER_is_fresh(capl, sizeof(*capl)) && __CPROVER_is_fresh(v_i, sizeof(*v_i)))
__CPROVER_requires(CNT_OK(notations) && CNT_OK(embeddedsigs) && CNT_OK(recipientfprs))
__CPROVER_assigns(*out, in->size, current_packet->size, *qual, *x_rvss_qual, *capl, *v_i, c_ik->size, __CPROVER_object_whole(c_ik->data), notations->size, embeddedsigs->size, recipientfprs->size, T57_SCRATCH)
__CPROVER_ensures(in->size <= __CPROVER_old(in->size))
__CPROVER_ensures(current_packet->size >= __CPROVER_old(current_packet->size) && current_packet->size - __CPROVER_old(current_packet->size) <= __CPROVER_old(in->size) - in->size)
/* progress: the tag octet of a non-empty input is always consumed (callers loop `while (pkts.size())`) */
__CPROVER_ensures(__CPROVER_old(in->size) >= 1 ==> in->size < __CPROVER_old(in->size))
//@ loop 1
__CPROVER_assigns(len, partlen, firstlen, in->size, pkt.size, current_packet->size, out->indetlen, vec_u8__cell)
__CPROVER_loop_invariant(in->size <= __CPROVER_loop_entry(in->size) && pkt.size <= __CPROVER_loop_entry(in->size) - in->size && current_packet->size >= __CPROVER_loop_entry(current_packet->size) && current_packet->size - __CPROVER_loop_entry(current_packet->size) <= __CPROVER_loop_entry(in->size) - in->size)
__CPROVER_decreases(in->size + (partlen ? 1 : 0))
//@ end

//@ function SubpacketParse
//@ noloopcontracts
//@ contract
/* BOUNDED (one subpacket per area: outer loop unwound before instrumentation; inner copy loops closed by
 * invariants).  C12: a subpacket area is parsed or refused; every copy out of the context stays inside the counted
 * arrays / the embedded-signature buffer; a non-zero verdict is given only after the whole area was consumed. */
__CPROVER_requires(__CPROVER_is_fresh(in, sizeof(*in)) && in->cap == TCAP && in->size <= 2 && CTX_OK(out) && CTX_BUFS_FRESH(out) && tmcg_openpgp_mem_alloc <= MAXALLOC && out->embeddedsignaturelen + out->attestedcertificationslen <= tmcg_openpgp_mem_alloc && CNT_OK(notations) && CNT_OK(embeddedsigs) && CNT_OK(recipientfprs))
__CPROVER_assigns(*out, in->size, tmcg_openpgp_mem_alloc, vec_u8__cell, notations->size, embeddedsigs->size, recipientfprs->size)
__CPROVER_ensures(in->size <= __CPROVER_old(in->size))
__CPROVER_ensures(__CPROVER_return_value != 0 ==> in->size == 0)
__CPROVER_ensures(embeddedsigs->size >= __CPROVER_old(embeddedsigs->size) && embeddedsigs->size - __CPROVER_old(embeddedsigs->size) <= 1)
//@ loop 2
__CPROVER_assigns(i, notation.first.size)
__CPROVER_loop_invariant(i <= out->notation_name_length && notation.first.size == i)
__CPROVER_decreases(out->notation_name_length - i)
//@ loop 3
__CPROVER_assigns(i, notation.second.size)
__CPROVER_loop_invariant(i <= out->notation_value_length && notation.second.size == i)
__CPROVER_decreases(out->notation_value_length - i)
//@ loop 4
__CPROVER_assigns(i, sig.size)
__CPROVER_loop_invariant(i <= out->embeddedsignaturelen && sig.size == i)
__CPROVER_decreases(out->embeddedsignaturelen - i)
//@ loop 5
__CPROVER_assigns(i, fpr.size)
__CPROVER_loop_invariant(i <= 20 && fpr.size == i)
__CPROVER_decreases(20 - i)
//@ loop 6
__CPROVER_assigns(i, fpr.size)
__CPROVER_loop_invariant(i <= 32 && fpr.size == i)
__CPROVER_decreases(32 - i)
//@ end

