//@ function AlgorithmIVLength_sk
//@ contract
__CPROVER_assigns()
__CPROVER_ensures(__CPROVER_return_value == 0 || __CPROVER_return_value == 8 || __CPROVER_return_value == 16)
//@ end

//@ function AlgorithmIVLength_aead
//@ contract
__CPROVER_assigns()
__CPROVER_ensures(__CPROVER_return_value == 0 || __CPROVER_return_value == 15 || __CPROVER_return_value == 16)
//@ end

//@ function PacketDecodeTag4
//@ contract
/* C12: for every packet body (any length, any octets) and any previous state of the context the decoder
 * returns a verdict; every read of the body and every write into the context stays in bounds (obligations in the body) */
__CPROVER_requires(TVEC_OK(pkt) && CTX_OK(out))
__CPROVER_assigns(*out, tmcg_openpgp_mem_alloc, vec_u8__cell)
__CPROVER_ensures(__CPROVER_return_value == 0 || __CPROVER_return_value == 0xFE || __CPROVER_return_value == 4)
//@ loop 1
__CPROVER_assigns(i, vec_u8__cell, __CPROVER_object_upto(out->signingkeyid, 8))
__CPROVER_loop_invariant(i <= 8)
__CPROVER_decreases(8 - i)
//@ end

//@ function PacketDecodeTag8
//@ contract
/* C12: for every packet body (any length, any octets) and any previous state of the context the decoder
 * returns a verdict; every read of the body and every write into the context stays in bounds (obligations in the body) */
__CPROVER_requires(TVEC_OK(pkt) && CTX_OK(out))
__CPROVER_assigns(*out, tmcg_openpgp_mem_alloc, vec_u8__cell)
__CPROVER_ensures(__CPROVER_return_value == 0 || __CPROVER_return_value == 0xFE || __CPROVER_return_value == 8)
//@ loop 1
__CPROVER_assigns(i, vec_u8__cell, __CPROVER_object_whole(out->compdata))
__CPROVER_loop_invariant(i <= out->compdatalen)
__CPROVER_decreases(out->compdatalen - i)
//@ end

//@ function PacketDecodeTag9
//@ contract
/* C12: for every packet body (any length, any octets) and any previous state of the context the decoder
 * returns a verdict; every read of the body and every write into the context stays in bounds (obligations in the body) */
__CPROVER_requires(TVEC_OK(pkt) && CTX_OK(out))
__CPROVER_assigns(*out, tmcg_openpgp_mem_alloc, vec_u8__cell)
__CPROVER_ensures(__CPROVER_return_value == 0 || __CPROVER_return_value == 0xFE || __CPROVER_return_value == 9)
//@ loop 1
__CPROVER_assigns(i, vec_u8__cell, __CPROVER_object_whole(out->encdata))
__CPROVER_loop_invariant(i <= out->encdatalen)
__CPROVER_decreases(out->encdatalen - i)
//@ end

//@ function PacketDecodeTag10
//@ contract
/* C12: for every packet body (any length, any octets) and any previous state of the context the decoder
 * returns a verdict; every read of the body and every write into the context stays in bounds (obligations in the body) */
__CPROVER_requires(TVEC_OK(pkt) && CTX_OK(out))
__CPROVER_assigns(*out, tmcg_openpgp_mem_alloc, vec_u8__cell)
__CPROVER_ensures(__CPROVER_return_value == 0 || __CPROVER_return_value == 0xFE || __CPROVER_return_value == 10)
//@ end

//@ function PacketDecodeTag11
//@ contract
/* C12: for every packet body (any length, any octets) and any previous state of the context the decoder
 * returns a verdict; every read of the body and every write into the context stays in bounds (obligations in the body) */
__CPROVER_requires(TVEC_OK(pkt) && CTX_OK(out))
__CPROVER_assigns(*out, tmcg_openpgp_mem_alloc, vec_u8__cell)
__CPROVER_ensures(__CPROVER_return_value == 0 || __CPROVER_return_value == 0xFE || __CPROVER_return_value == 11)
//@ loop 1
__CPROVER_assigns(i, vec_u8__cell, __CPROVER_object_upto(out->datafilename, 2048))
__CPROVER_loop_invariant(i <= out->datafilenamelen)
__CPROVER_decreases(out->datafilenamelen - i)
//@ loop 2
__CPROVER_assigns(i, vec_u8__cell, __CPROVER_object_whole(out->data))
__CPROVER_loop_invariant(i <= out->datalen)
__CPROVER_decreases(out->datalen - i)
//@ end

//@ function PacketDecodeTag13
//@ contract
/* C12: for every packet body (any length, any octets) and any previous state of the context the decoder
 * returns a verdict; every read of the body and every write into the context stays in bounds (obligations in the body) */
__CPROVER_requires(TVEC_OK(pkt) && CTX_OK(out))
__CPROVER_assigns(*out, tmcg_openpgp_mem_alloc, vec_u8__cell)
__CPROVER_ensures(__CPROVER_return_value == 0 || __CPROVER_return_value == 0xFE || __CPROVER_return_value == 13)
//@ loop 1
__CPROVER_assigns(i, vec_u8__cell, __CPROVER_object_whole(out->uiddata))
__CPROVER_loop_invariant(i <= out->uiddatalen)
__CPROVER_decreases(out->uiddatalen - i)
//@ end

//@ function PacketDecodeTag17
//@ contract
/* C12: for every packet body (any length, any octets) and any previous state of the context the decoder
 * returns a verdict; every read of the body and every write into the context stays in bounds (obligations in the body) */
__CPROVER_requires(TVEC_OK(pkt) && CTX_OK(out))
__CPROVER_assigns(*out, tmcg_openpgp_mem_alloc, vec_u8__cell)
__CPROVER_ensures(__CPROVER_return_value == 0 || __CPROVER_return_value == 0xFE || __CPROVER_return_value == 17)
//@ loop 1
__CPROVER_assigns(i, vec_u8__cell, __CPROVER_object_whole(out->uatdata))
__CPROVER_loop_invariant(i <= out->uatdatalen)
__CPROVER_decreases(out->uatdatalen - i)
//@ end

//@ function PacketDecodeTag18
//@ contract
/* C12: for every packet body (any length, any octets) and any previous state of the context the decoder
 * returns a verdict; every read of the body and every write into the context stays in bounds (obligations in the body) */
__CPROVER_requires(TVEC_OK(pkt) && CTX_OK(out))
__CPROVER_assigns(*out, tmcg_openpgp_mem_alloc, vec_u8__cell)
__CPROVER_ensures(__CPROVER_return_value == 0 || __CPROVER_return_value == 0xFE || __CPROVER_return_value == 18)
//@ loop 1
__CPROVER_assigns(i, vec_u8__cell, __CPROVER_object_whole(out->encdata))
__CPROVER_loop_invariant(i <= out->encdatalen)
__CPROVER_decreases(out->encdatalen - i)
//@ end

//@ function PacketDecodeTag19
//@ contract
/* C12: for every packet body (any length, any octets) and any previous state of the context the decoder
 * returns a verdict; every read of the body and every write into the context stays in bounds (obligations in the body) */
__CPROVER_requires(TVEC_OK(pkt) && CTX_OK(out))
__CPROVER_assigns(*out, tmcg_openpgp_mem_alloc, vec_u8__cell)
__CPROVER_ensures(__CPROVER_return_value == 0 || __CPROVER_return_value == 0xFE || __CPROVER_return_value == 19)
//@ loop 1
__CPROVER_assigns(i, vec_u8__cell, __CPROVER_object_upto(out->mdc_hash, 20))
__CPROVER_loop_invariant(i <= (size_t)20)
__CPROVER_decreases((size_t)20 - i)
//@ end

//@ function PacketDecodeTag20
//@ contract
/* C12: for every packet body (any length, any octets) and any previous state of the context the decoder
 * returns a verdict; every read of the body and every write into the context stays in bounds (obligations in the body) */
__CPROVER_requires(TVEC_OK(pkt) && CTX_OK(out))
__CPROVER_assigns(*out, tmcg_openpgp_mem_alloc, vec_u8__cell)
__CPROVER_ensures(__CPROVER_return_value == 0 || __CPROVER_return_value == 0xFE || __CPROVER_return_value == 20)
//@ loop 1
__CPROVER_assigns(i, vec_u8__cell, __CPROVER_object_upto(out->iv, 32))
__CPROVER_loop_invariant(i <= ivlen)
__CPROVER_decreases(ivlen - i)
//@ loop 2
__CPROVER_assigns(i, vec_u8__cell, __CPROVER_object_whole(out->encdata))
__CPROVER_loop_invariant(i <= out->encdatalen)
__CPROVER_decreases(out->encdatalen - i)
//@ end

