#include "specdefs.h"
/* diagnostics go to std::cerr: a stream object nobody reads */
#include "ios_min.h"
/* static data member CallasDonnerhackeFinneyShawThayerRFC4880::tmcg_openpgp_mem_alloc (allocation guard counter) */
unsigned long tmcg_openpgp_mem_alloc;

/* ---- sizes-only containers of PacketDecodeTag57 ---- */
#define ROWCAP ((size_t)256)     /* the decoder refuses more than 255 parties / 129 coefficients before resizing */
gcry_mpi_t vec_mpi__cell;       /* scratch cell every MPI element access goes through */
static inline void vec_mpi__resize(vec_mpi *v, size_t n) { __CPROVER_assert(n <= ROWCAP, "model limit: at most 256 MPIs per vector"); v->size = n; }
static inline gcry_mpi_t *vec_mpi__op_index(vec_mpi *v, size_t i) { __CPROVER_assert(i < v->size, "vector index in range"); return &vec_mpi__cell; }
static inline void vec_str__clear(vec_str *v) { v->size = 0; }
static inline void vec_str__push_back(vec_str *v, str_t *x) { (void)x; __CPROVER_assert(v->size < ROWCAP, "model limit: at most 256 strings"); v->size = v->size + 1; }
static inline void vec_vec_mpi__resize(vec_vec_mpi *v, size_t n) { __CPROVER_assert(n <= v->cap, "model limit: rows"); v->size = n; }
static inline vec_mpi *vec_vec_mpi__op_index(vec_vec_mpi *v, size_t i) { __CPROVER_assert(i < v->size, "vector index in range"); return &v->data[i]; }
/* std::string locals that only receive a decoded string: no character buffer */
static inline void str_t__ctor_nodata(str_t *s) { s->data = 0; s->size = 0; s->cap = 0; s->absid = 0; }
#define str_t__ctor_0 str_t__ctor_nodata
/* libgcrypt: the value of an MPI as an unsigned long is arbitrary */
unsigned long nondet_ulong(void);
static inline size_t tmcg_get_gcry_mpi_ui(gcry_mpi_t a) { (void)a; return nondet_ulong(); }
#define VV_OK(v) (__CPROVER_is_fresh((v), sizeof(*(v))) && (v)->cap == ROWCAP && (v)->size <= ROWCAP && __CPROVER_is_fresh((v)->data, ROWCAP * sizeof(vec_mpi)))
#define T57_SCRATCH vec_u8__cell, vec_mpi__cell, tmcg_openpgp_mem_alloc

/* ---- sizes-only containers of SubpacketParse / PacketDecodeTag2 ---- */
static inline void pair_vec_u8_vec_u8__ctor_0(pair_vec_u8_vec_u8 *p) { vec_u8__ctor_0(&p->first); vec_u8__ctor_0(&p->second); }
static inline void notations_t__ctor_0(notations_t *v) { v->data = 0; v->size = 0; v->cap = 0; }
static inline void notations_t__push_back(notations_t *v, pair_vec_u8_vec_u8 *x) { (void)x; __CPROVER_assert(v->size < (size_t)-1, "model limit: notation count"); v->size = v->size + 1; }
static inline void vec_vec_u8__ctor_0(vec_vec_u8 *v) { v->data = 0; v->size = 0; v->cap = 0; }
static inline size_t vec_vec_u8__size(vec_vec_u8 *v) { return v->size; }
static inline void vec_vec_u8__push_back(vec_vec_u8 *v, vec_u8 *x) { (void)x; __CPROVER_assert(v->size < (size_t)-1, "model limit: element count"); v->size = v->size + 1; }
vec_u8 vec_vec_u8__cell;   /* scratch element: arbitrary octet string */
static inline vec_u8 *vec_vec_u8__op_index(vec_vec_u8 *v, size_t i) { __CPROVER_assert(i < v->size, "vector index in range"); return &vec_vec_u8__cell; }
static inline void gcry_mpi_release(gcry_mpi_t a) { (void)a; }
