#include "specdefs.h"
/* diagnostics go to std::cerr: a stream object nobody reads */
#include "ios_min.h"
/* static data member CallasDonnerhackeFinneyShawThayerRFC4880::tmcg_openpgp_mem_alloc (allocation guard counter) */
unsigned long tmcg_openpgp_mem_alloc;
