//@ function NaorPinkasEOTP__Send_interactive_OneOutOfN
//@ contract
__CPROVER_requires(EOTP_INV(self) && VECM_OK(M) && N >= 2 && POOL_OK && IOS_IN_OK(in) && in->pos <= 32 && __CPROVER_is_fresh(out, sizeof(*out)) && __tmcg_thrown == 0)
__CPROVER_requires(dr_n == 0 && !ghost_pw_seen && ghost_gptr == &vec_mpz_pool_cells[0][ghost_i < GC ? ghost_i : 0])
__CPROVER_assigns(IOS_IN_ASSIGNS(in), IOS_OUT_ASSIGNS(out), __tmcg_thrown, dr_n, dr_g, dr_gmod, PW_STATE, POOLS_ASSIGN, __CPROVER_object_whole(M->data), V(new_scratch))
__CPROVER_ensures(__tmcg_thrown == 0 || __tmcg_thrown == TMCG_EXC_runtime_error || __tmcg_thrown == TMCG_EXC_invalid_argument)
/* C18 (1-out-of-N): the sender answers only a query of N + 2 elements (x, y, z_0 .. z_{N-1}) that are all members of
 * the order-q subgroup and whose z-values are pairwise different (coinciding z-values would open several messages) */
__CPROVER_ensures(__CPROVER_return_value ==> (__tmcg_thrown == 0 && in->pos == __CPROVER_old(in->pos) + 2 + N))
__CPROVER_ensures((__CPROVER_return_value && ghost_i < N) ==> (ZC(ghost_i) == TOKI(in, __CPROVER_old(in->pos), 2 + ghost_i) && CE_RANGE(ZC(ghost_i)) && ORDER_TESTED_I))
__CPROVER_ensures((__CPROVER_return_value && ghost_j < ghost_i && ghost_i < N) ==> ZC(ghost_i) != ZC(ghost_j))
/* a refused query gets no ciphertext at all; an answered one gets exactly 2N integers and every message its OWN
 * fresh pair of residues below q (2N draws, draw number ghost_dn arbitrary) */
__CPROVER_ensures((!__CPROVER_return_value && __tmcg_thrown == 0) ==> out->nput == __CPROVER_old(out->nput))
__CPROVER_ensures(__CPROVER_return_value ==> (out->nput == __CPROVER_old(out->nput) + 2 * N && dr_n == 2 * N && (ghost_dn < 2 * N ==> dr_gmod == Q)))
//@ loop 1
__CPROVER_assigns(i, z.size, s.size, r.size, w.size, ENC.size, V(new_scratch))
__CPROVER_loop_invariant(i <= N && z.size == i && s.size == i && r.size == i && w.size == i && ENC.size == i)
__CPROVER_decreases(N - i)
//@ loop 2
__CPROVER_assigns(i, IOS_IN_ASSIGNS(in), __tmcg_thrown, __CPROVER_object_whole(z.data), __CPROVER_object_whole(z.cells))
__CPROVER_loop_invariant(i <= N && __tmcg_thrown == 0 && in->pos == __CPROVER_loop_entry(in->pos) + i && (ghost_i < i ==> ZC(ghost_i) == TOKI(in, __CPROVER_loop_entry(in->pos), ghost_i)))
__CPROVER_decreases(N - i)
//@ loop 3
__CPROVER_assigns(i, PW_STATE, __CPROVER_object_whole(z.data))
__CPROVER_loop_invariant(i <= N && (ghost_i < i ==> (CE_RANGE(ZC(ghost_i)) && ORDER_TESTED_I)) && ((ghost_i >= i && ghost_i < N) ==> (!ghost_pw_seen || ghost_pw_base == ZC(ghost_i))))
__CPROVER_decreases(N - i)
//@ loop 4
__CPROVER_assigns(i, __CPROVER_object_whole(z.data))
__CPROVER_loop_invariant(i <= N && ((ghost_j < ghost_i && ghost_i < i) ==> ZC(ghost_i) != ZC(ghost_j)))
__CPROVER_decreases(N - i)
//@ loop 5
__CPROVER_assigns(j, __CPROVER_object_whole(z.data))
__CPROVER_loop_invariant(j <= i && i < N && ((ghost_i == i && ghost_j < j) ==> ZC(ghost_i) != ZC(ghost_j)))
__CPROVER_decreases(i - j)
//@ loop 6
__CPROVER_assigns(i, V(foo), V(bar), __tmcg_thrown, dr_n, dr_g, dr_gmod, __CPROVER_object_whole(z.data), __CPROVER_object_whole(s.data), __CPROVER_object_whole(s.cells), __CPROVER_object_whole(r.data), __CPROVER_object_whole(r.cells), __CPROVER_object_whole(w.data), __CPROVER_object_whole(w.cells), __CPROVER_object_whole(ENC.data), __CPROVER_object_whole(ENC.cells), __CPROVER_object_whole(M->data))
__CPROVER_loop_invariant(i <= N && __tmcg_thrown == 0 && dr_n == 2 * i && (ghost_dn < 2 * i ==> dr_gmod == Q))
__CPROVER_decreases(N - i)
//@ loop 7
__CPROVER_assigns(i, IOS_OUT_ASSIGNS(out), __CPROVER_object_whole(w.data), __CPROVER_object_whole(ENC.data))
__CPROVER_loop_invariant(i <= N && out->nput == __CPROVER_loop_entry(out->nput) + 2 * i)
__CPROVER_decreases(N - i)
//@ loop 8
__CPROVER_assigns(i, __CPROVER_object_whole(z.data), __CPROVER_object_whole(s.data), __CPROVER_object_whole(r.data), __CPROVER_object_whole(w.data), __CPROVER_object_whole(ENC.data))
__CPROVER_loop_invariant(i <= N)
__CPROVER_decreases(N - i)
//@ end
