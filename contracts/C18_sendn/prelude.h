#include "specdefs.h"
mpz_ptr *vec_mpz_pool_data[VEC_MPZ_POOL]; __mpz_struct *vec_mpz_pool_cells[VEC_MPZ_POOL]; size_t vec_mpz_pool_n, vec_mpz_pool_cap;
size_t ghost_i, ghost_j, ghost_dn, dr_n; long dr_g, dr_gmod;
mpz_srcptr ghost_gptr; _Bool ghost_pw_seen; long ghost_pw_base, ghost_pw_exp, ghost_pw_mod, ghost_pw_res;
void verif_powm_hook(long x, mpz_srcptr b, mpz_srcptr e, mpz_srcptr m)
{ if (b == ghost_gptr) { ghost_pw_seen = 1; ghost_pw_base = b->v; ghost_pw_exp = e->v; ghost_pw_mod = m->v; ghost_pw_res = x; } }
/* tmcg_mpz_srandomm (libgcrypt + mpz_mod): an arbitrary residue below the modulus; draw number ghost_dn is logged */
static inline void tmcg_mpz_srandomm(mpz_ptr r, mpz_srcptr m)
{
  long v = (long)nondet_ulong(); __CPROVER_assume(0 <= v && (m->v > 0 ==> v < m->v));
  if (dr_n == ghost_dn) { dr_g = v; dr_gmod = m->v; }
  __CPROVER_assume(dr_n + 1 > dr_n); dr_n = dr_n + 1;
  r->v = v;
}
void tmcg_mpz_spowm(mpz_ptr res, mpz_srcptr m, mpz_srcptr x, mpz_srcptr p)
__CPROVER_requires(__CPROVER_w_ok(res, sizeof(*res)) && __CPROVER_r_ok(m, sizeof(*m)) && __CPROVER_r_ok(x, sizeof(*x)) && __CPROVER_r_ok(p, sizeof(*p)) && __tmcg_thrown == 0)
__CPROVER_assigns(V(res), __tmcg_thrown)
__CPROVER_ensures(__tmcg_thrown == 0 || __tmcg_thrown == TMCG_EXC_invalid_argument || __tmcg_thrown == TMCG_EXC_runtime_error)
__CPROVER_ensures(__tmcg_thrown == 0 ==> V(res) == POWM(V(m), V(x), V(p)))
;
/* operator new / delete of the per-message integers: abstracted (the vectors own their integers in the model) */
__mpz_struct new_scratch[1];
#define __verif_new_array(sz, n) ((void *)new_scratch)
#undef __verif_new_array_zero
#define __verif_new_array_zero(sz, n) __verif_new_array((sz), (n))
#define __verif_delete(p) ((void)(p))
