#ifndef C18N_SPECDEFS_H
#define C18N_SPECDEFS_H
#define P V(self->p)
#define Q V(self->q)
#define G V(self->g)
#define CE_RANGE(a) (0 < (a) && (a) < P)
#define GC ((size_t)64)            /* at most 64 messages (the property's quantifier: N = 2..64) */
#define N (M->size)
#define TOKI(s, pos0, k) ((s)->tok[((pos0) + (k)) < IOS_MAXTOK ? (pos0) + (k) : 0])
#define EOTP_INV(self) (__CPROVER_is_fresh((self), sizeof(*(self))) && __CPROVER_is_fresh((self)->fpowm_table_g, TMCG_MAX_FPOWM_T * sizeof(mpz_t)) && \
   V((self)->fpowm_table_g[0]) == G && P > 1 && Q > 1 && UF(bits)(Q) <= (unsigned long)TMCG_MAX_FPOWM_T && WORD_OK(Q))
#define VECM_OK(v) (__CPROVER_is_fresh((v), sizeof(*(v))) && (v)->cap == GC && (v)->size <= GC && __CPROVER_is_fresh((v)->data, GC * sizeof(mpz_ptr)) && __CPROVER_is_fresh((v)->cells, GC * sizeof(__mpz_struct)))
#define POOL_OK (vec_mpz_pool_n == 0 && vec_mpz_pool_cap == GC && \
   __CPROVER_is_fresh(vec_mpz_pool_data[0], GC * sizeof(mpz_ptr)) && __CPROVER_is_fresh(vec_mpz_pool_cells[0], GC * sizeof(__mpz_struct)) && \
   __CPROVER_is_fresh(vec_mpz_pool_data[1], GC * sizeof(mpz_ptr)) && __CPROVER_is_fresh(vec_mpz_pool_cells[1], GC * sizeof(__mpz_struct)) && \
   __CPROVER_is_fresh(vec_mpz_pool_data[2], GC * sizeof(mpz_ptr)) && __CPROVER_is_fresh(vec_mpz_pool_cells[2], GC * sizeof(__mpz_struct)) && \
   __CPROVER_is_fresh(vec_mpz_pool_data[3], GC * sizeof(mpz_ptr)) && __CPROVER_is_fresh(vec_mpz_pool_cells[3], GC * sizeof(__mpz_struct)) && \
   __CPROVER_is_fresh(vec_mpz_pool_data[4], GC * sizeof(mpz_ptr)) && __CPROVER_is_fresh(vec_mpz_pool_cells[4], GC * sizeof(__mpz_struct)))
/* z is the first local vector of the function: its integers are pool 0 */
#define ZC(k) (vec_mpz_pool_cells[0][(k) < GC ? (k) : 0].v)
extern size_t ghost_i, ghost_j, ghost_dn;
extern size_t dr_n; extern long dr_g, dr_gmod;     /* number of residues drawn; value and modulus of draw number ghost_dn */
extern mpz_srcptr ghost_gptr; extern _Bool ghost_pw_seen; extern long ghost_pw_base, ghost_pw_exp, ghost_pw_mod, ghost_pw_res;
#define ORDER_TESTED_I (ghost_pw_seen && ghost_pw_base == ZC(ghost_i) && ghost_pw_exp == Q && ghost_pw_mod == P && ghost_pw_res == 1)
#define PW_STATE ghost_pw_seen, ghost_pw_base, ghost_pw_exp, ghost_pw_mod, ghost_pw_res
#define POOLS_ASSIGN vec_mpz_pool_n, __CPROVER_object_whole(vec_mpz_pool_data[0]), __CPROVER_object_whole(vec_mpz_pool_cells[0]), __CPROVER_object_whole(vec_mpz_pool_data[1]), __CPROVER_object_whole(vec_mpz_pool_cells[1]), \
   __CPROVER_object_whole(vec_mpz_pool_data[2]), __CPROVER_object_whole(vec_mpz_pool_cells[2]), __CPROVER_object_whole(vec_mpz_pool_data[3]), __CPROVER_object_whole(vec_mpz_pool_cells[3]), \
   __CPROVER_object_whole(vec_mpz_pool_data[4]), __CPROVER_object_whole(vec_mpz_pool_cells[4])
#endif
