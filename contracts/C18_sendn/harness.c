void h_sendn(void) { NaorPinkasEOTP *self; vec_mpz *M; ios_t *in, *out; _Bool r = NaorPinkasEOTP__Send_interactive_OneOutOfN(self, M, in, out);
  __CPROVER_assert(!r, "REACHABILITY-CANARY (must fail): a query is answered"); }
