#include "specdefs.h"
/* ghost names of uninterpreted terms for call-free loop invariants; tied by a
 * requires that exists only when the function itself is enforced (ENFORCE_*) */
long g_absx; unsigned long g_bits;
