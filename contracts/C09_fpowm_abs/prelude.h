#include "specdefs.h"
/* ghost names of uninterpreted terms for call-free loop invariants; tied by a
 * requires that exists only when the function itself is enforced (ENFORCE_*) */
long g_absx; unsigned long g_bits;
#ifdef GMP_ABS_TRACK_E
/* the designated factor whose multiplicity the model tracks (gmp_abs.h, ghost field e): the table entry at the
 * arbitrary (never assigned) index ghost_b; the other table entries do not contain it, everything else carries
 * its own count */
mpz_t *g_tab; size_t ghost_b;
unsigned long verif_e_of(const __mpz_struct *b)
{ if (__CPROVER_same_object(b, g_tab)) return b == &g_tab[ghost_b][0] ? 1UL : 0UL; return b->e; }
#endif
