void h_precompute(void) { mpz_t *t; mpz_srcptr m, p; size_t n; tmcg_mpz_fpowm_precompute(t, m, p, n); }
void h_fpowm(void) { mpz_t *t; mpz_ptr res; mpz_srcptr m, x, p; tmcg_mpz_fpowm(t, res, m, x, p); }
void h_fpowm_ui(void) { mpz_t *t; mpz_ptr res; mpz_srcptr m, p; unsigned long x; tmcg_mpz_fpowm_ui(t, res, m, x, p); }
void h_fspowm(void) { mpz_t *t; mpz_ptr res; mpz_srcptr m, x, p; tmcg_mpz_fspowm(t, res, m, x, p); }
