#ifndef C09_FPOWM_SPECDEFS_H
#define C09_FPOWM_SPECDEFS_H
#define T_MAX ((unsigned long)TMCG_MAX_FPOWM_T)
#define BITS(x) UF(bits)(x)
/* a usable table object: TMCG_MAX_FPOWM_T integers */
#define TABLE_OK(t) __CPROVER_is_fresh((t), TMCG_MAX_FPOWM_T * sizeof(mpz_t))
#define THROWN_IS(e) (__tmcg_thrown == (e))
#endif
