#ifndef C09_FPOWM_SPECDEFS_H
#define C09_FPOWM_SPECDEFS_H
#define T_MAX ((unsigned long)TMCG_MAX_FPOWM_T)
#define BITS(x) UF(bits)(x)
/* a usable table object: TMCG_MAX_FPOWM_T integers */
#define TABLE_OK(t) __CPROVER_is_fresh((t), TMCG_MAX_FPOWM_T * sizeof(mpz_t))
#define THROWN_IS(e) (__tmcg_thrown == (e))
/* bit k of a non-negative word, as a multiplicity */
#define BITK(a, k) ((unsigned long)((k) < 63 ? ((a) >> ((k) < 63 ? (k) : 0)) & 1L : 0L))
#ifdef GMP_ABS_TRACK_E
#define E_FIELD(r) ((r)->e)
#endif
#endif
