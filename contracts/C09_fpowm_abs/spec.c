//@ function tmcg_mpz_fpowm_precompute
//@ contract
__CPROVER_requires(TABLE_OK(fpowm_table) && MPZ_OK(m) && MPZ_OK(p) && __tmcg_thrown == 0)
#ifdef ENFORCE_tmcg_mpz_fpowm_precompute
__CPROVER_assigns(__CPROVER_object_whole(fpowm_table), __tmcg_thrown)
#else
/* at a call site the contract also logs which table was filled for how many exponent bits (monitor of the call's
 * arguments, true by construction; callers state with it that a table covers the exponents used with it) */
__CPROVER_assigns(__CPROVER_object_whole(fpowm_table), __tmcg_thrown, ghost_pre_tab, ghost_pre_t)
/* (the table is logged by its object number: a havocked POINTER cannot be made equal to an object allocated after
 * function entry -- measured: the pointer form made every successful run of the stream constructors infeasible) */
__CPROVER_ensures(__tmcg_thrown == 0 ==> ghost_pre_tab == __CPROVER_POINTER_OBJECT(fpowm_table) && ghost_pre_t == t)
#endif
/* C12: the modulus comes from the wire in every stream constructor; a zero modulus is refused
 * (GMP would divide by zero), every other modulus is processed */
__CPROVER_ensures(__tmcg_thrown == (V(p) == 0 ? TMCG_EXC_invalid_argument : TMCG_EXC_none))
__CPROVER_ensures(__tmcg_thrown == 0 ==> V(fpowm_table[0]) == V(m))
//@ loop 1
__CPROVER_assigns(i, __CPROVER_object_whole(fpowm_table))
__CPROVER_loop_invariant(1 <= i && i <= TMCG_MAX_FPOWM_T && V(fpowm_table[0]) == V(m) && __tmcg_thrown == 0)
__CPROVER_decreases(TMCG_MAX_FPOWM_T - i)
//@ end

//@ function tmcg_mpz_fpowm
//@ contract
__CPROVER_requires(TABLE_OK(fpowm_table) && MPZ_OK(res) && MPZ_OK(m) && MPZ_OK(x) && MPZ_OK(p))
__CPROVER_requires(V(p) != 0 && __tmcg_thrown == 0 && WORD_OK(V(x)))
#ifdef ENFORCE_tmcg_mpz_fpowm
__CPROVER_requires(g_absx == (V(x) < 0 ? -V(x) : V(x)) && g_bits == BITS(g_absx))
#ifdef GMP_ABS_TRACK_E
__CPROVER_requires(g_tab == fpowm_table && ghost_b < T_MAX)
/* the bit length of a non-negative word (fact of the integers, as in gmp_abs.h GMP_ABS_EXACT_BITS), for this value */
__CPROVER_requires(g_absx > 0 ==> g_bits == 64UL - (unsigned long)__builtin_clzl((unsigned long)g_absx))
#endif
#endif
__CPROVER_assigns(*res, __tmcg_thrown)
/* C05: a base that differs from the table's base, or an oversized exponent, is refused -- exactly then */
__CPROVER_ensures(THROWN_IS(TMCG_EXC_invalid_argument) == (V(m) != V(fpowm_table[0]) || BITS(V(x)) > T_MAX))
__CPROVER_ensures(THROWN_IS(TMCG_EXC_none) || THROWN_IS(TMCG_EXC_invalid_argument) || THROWN_IS(TMCG_EXC_runtime_error))
__CPROVER_ensures(THROWN_IS(TMCG_EXC_runtime_error) ==> V(x) < 0)
__CPROVER_ensures(!THROWN_IS(TMCG_EXC_none) && !THROWN_IS(TMCG_EXC_runtime_error) ==> V(res) == __CPROVER_old(V(res)))
#ifdef ASSUME_FPOWM_VALUE
/* C09 (bounded, group C09_fpowm_exact): with the precomputed table the result is the plain power */
__CPROVER_ensures(THROWN_IS(TMCG_EXC_none) ==> V(res) == POWM(V(m), V(x), V(p)))
#endif
#if defined(ENFORCE_tmcg_mpz_fpowm) && defined(GMP_ABS_TRACK_E)
/* C09, algebraic structure (unbounded): the result contains the table entry at EVERY index k (ghost_b arbitrary)
 * exactly bit_k(|x|) times -- inverted for a negative exponent -- i.e. res = prod_k table[k]^(+-bit_k(|x|)) in
 * every commutative group; all blinding factors cancel */
__CPROVER_ensures(THROWN_IS(TMCG_EXC_none) ==> E_FIELD(res) == (V(x) < 0 ? 0UL - BITK((V(x) < 0 ? -V(x) : V(x)), ghost_b) : BITK((V(x) < 0 ? -V(x) : V(x)), ghost_b)))
#endif
//@ loop 1
__CPROVER_assigns(i, *res)
__CPROVER_loop_invariant(i <= g_bits && g_bits <= T_MAX)
#ifdef GMP_ABS_TRACK_E
__CPROVER_loop_invariant(E_FIELD(res) == (ghost_b < i ? BITK(g_absx, ghost_b) : 0UL) && g_absx >= 0)
#endif
__CPROVER_decreases(g_bits - i)
//@ end

//@ function tmcg_mpz_fpowm_ui
//@ contract
__CPROVER_requires(TABLE_OK(fpowm_table) && MPZ_OK(res) && MPZ_OK(m) && MPZ_OK(p))
__CPROVER_requires(V(p) != 0 && __tmcg_thrown == 0 && x_ui <= (unsigned long)0x7fffffffffffffffL)
#ifdef ENFORCE_tmcg_mpz_fpowm_ui
__CPROVER_requires(g_absx == (long)x_ui && g_bits == BITS(g_absx))
#ifdef GMP_ABS_TRACK_E
__CPROVER_requires(g_tab == fpowm_table && ghost_b < T_MAX)
/* the bit length of a non-negative word (fact of the integers, as in gmp_abs.h GMP_ABS_EXACT_BITS), for this value */
__CPROVER_requires(g_absx > 0 ==> g_bits == 64UL - (unsigned long)__builtin_clzl((unsigned long)g_absx))
#endif
#endif
__CPROVER_assigns(*res, __tmcg_thrown)
__CPROVER_ensures(THROWN_IS(TMCG_EXC_invalid_argument) == (V(m) != V(fpowm_table[0]) || BITS((long)x_ui) > T_MAX))
__CPROVER_ensures(THROWN_IS(TMCG_EXC_none) || THROWN_IS(TMCG_EXC_invalid_argument))
__CPROVER_ensures(!THROWN_IS(TMCG_EXC_none) ==> V(res) == __CPROVER_old(V(res)))
#ifdef ASSUME_FPOWM_VALUE
__CPROVER_ensures(THROWN_IS(TMCG_EXC_none) ==> V(res) == POWM(V(m), (long)x_ui, V(p)))
#endif
#if defined(ENFORCE_tmcg_mpz_fpowm_ui) && defined(GMP_ABS_TRACK_E)
/* C09, algebraic structure (unbounded): the result contains the table entry at EVERY index k (ghost_b arbitrary)
 * exactly bit_k(|x|) times -- inverted for a negative exponent -- i.e. res = prod_k table[k]^(+-bit_k(|x|)) in
 * every commutative group; all blinding factors cancel */
__CPROVER_ensures(THROWN_IS(TMCG_EXC_none) ==> E_FIELD(res) == BITK((long)x_ui, ghost_b))
#endif
//@ loop 1
__CPROVER_assigns(i, *res)
__CPROVER_loop_invariant(i <= g_bits && g_bits <= T_MAX)
#ifdef GMP_ABS_TRACK_E
__CPROVER_loop_invariant(E_FIELD(res) == (ghost_b < i ? BITK(g_absx, ghost_b) : 0UL) && g_absx >= 0)
#endif
__CPROVER_decreases(g_bits - i)
//@ end

//@ function tmcg_mpz_fspowm
//@ contract
__CPROVER_requires(TABLE_OK(fpowm_table) && MPZ_OK(res) && MPZ_OK(m) && MPZ_OK(x) && MPZ_OK(p))
__CPROVER_requires(V(p) != 0 && __tmcg_thrown == 0 && WORD_OK(V(x)))
#ifdef ENFORCE_tmcg_mpz_fspowm
__CPROVER_requires(g_absx == (V(x) < 0 ? -V(x) : V(x)) && g_bits == BITS(g_absx))
#ifdef GMP_ABS_TRACK_E
__CPROVER_requires(g_tab == fpowm_table && ghost_b < T_MAX)
/* the bit length of a non-negative word (fact of the integers, as in gmp_abs.h GMP_ABS_EXACT_BITS), for this value */
__CPROVER_requires(g_absx > 0 ==> g_bits == 64UL - (unsigned long)__builtin_clzl((unsigned long)g_absx))
#endif
#endif
__CPROVER_assigns(*res, __tmcg_thrown)
__CPROVER_ensures(THROWN_IS(TMCG_EXC_invalid_argument) == (V(m) != V(fpowm_table[0]) || BITS(V(x)) > T_MAX))
__CPROVER_ensures(THROWN_IS(TMCG_EXC_none) || THROWN_IS(TMCG_EXC_invalid_argument) || THROWN_IS(TMCG_EXC_runtime_error))
__CPROVER_ensures(THROWN_IS(TMCG_EXC_invalid_argument) ==> V(res) == __CPROVER_old(V(res)))
#ifdef ASSUME_FPOWM_VALUE
__CPROVER_ensures(THROWN_IS(TMCG_EXC_none) ==> V(res) == POWM(V(m), V(x), V(p)))
#endif
#if defined(ENFORCE_tmcg_mpz_fspowm) && defined(GMP_ABS_TRACK_E)
/* C09, algebraic structure (unbounded): the result contains the table entry at EVERY index k (ghost_b arbitrary)
 * exactly bit_k(|x|) times -- inverted for a negative exponent -- i.e. res = prod_k table[k]^(+-bit_k(|x|)) in
 * every commutative group; all blinding factors cancel */
__CPROVER_ensures(THROWN_IS(TMCG_EXC_none) ==> E_FIELD(res) == (V(x) < 0 ? 0UL - BITK((V(x) < 0 ? -V(x) : V(x)), ghost_b) : BITK((V(x) < 0 ? -V(x) : V(x)), ghost_b)))
#endif
//@ loop 1
__CPROVER_assigns(i, *res, *foo, *bar)
__CPROVER_loop_invariant(i <= g_bits && g_bits <= T_MAX)
#ifdef GMP_ABS_TRACK_E
__CPROVER_loop_invariant(E_FIELD(res) == (ghost_b < i ? BITK(g_absx, ghost_b) : 0UL) && g_absx >= 0)
#endif
__CPROVER_decreases(g_bits - i)
//@ end
