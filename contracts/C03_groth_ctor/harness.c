void h_skc(void) { GrothSKC *self; size_t n; ios_t *in; unsigned long l, f, s; GrothSKC__ctor_stream(self, n, in, l, f, s);
  __CPROVER_assert(__tmcg_thrown != 0, "REACHABILITY-CANARY (must fail): a construction without exception exists"); }
void h_vsshe(void) { GrothVSSHE *self; size_t n; ios_t *in; unsigned long l, f, s; GrothVSSHE__ctor_stream(self, n, in, l, f, s);
  __CPROVER_assert(__tmcg_thrown != 0, "REACHABILITY-CANARY (must fail): a construction without exception exists"); }
void h_skc_cg(void) { GrothSKC *self; GrothSKC__CheckGroup(self); }
void h_vsshe_cg(void) { GrothVSSHE *self; GrothVSSHE__CheckGroup(self); }
void h_vsshe_pub(void) { GrothVSSHE *self; ios_t *out; GrothVSSHE__PublishGroup(self, out); }
