void h_skc(void) { GrothSKC *self; size_t n; ios_t *in; unsigned long l, f, s; GrothSKC__ctor_stream(self, n, in, l, f, s); }
void h_vsshe(void) { GrothVSSHE *self; size_t n; ios_t *in; unsigned long l, f, s; GrothVSSHE__ctor_stream(self, n, in, l, f, s); }
