//@ function GrothSKC__ctor_stream
//@ contract
__CPROVER_requires(__CPROVER_is_fresh(self, sizeof(*self)) && __CPROVER_is_fresh(in, sizeof(*in)) && __tmcg_thrown == 0)
__CPROVER_assigns(__CPROVER_object_whole(self), in->fail, __tmcg_thrown, ghost_pre_tab, ghost_pre_t)
__CPROVER_ensures(__tmcg_thrown == 0 || __tmcg_thrown == TMCG_EXC_runtime_error || __tmcg_thrown == TMCG_EXC_invalid_argument)
/* the argument object works with the challenge length it was given */
__CPROVER_ensures(__tmcg_thrown == 0 ==> self->l_e == ell_e && self->l_e_nizk == ell_e * 2UL && self->com != 0)
//@ end

//@ function GrothVSSHE__ctor_stream
//@ contract
__CPROVER_requires(__CPROVER_is_fresh(self, sizeof(*self)) && IOS_IN_OK(in) && __tmcg_thrown == 0)
__CPROVER_assigns(__CPROVER_object_whole(self), IOS_IN_ASSIGNS(in), __tmcg_thrown, ghost_pre_tab, ghost_pre_t, g_pub_calls, g_pub_obj, g_pub_nput)
__CPROVER_ensures(__tmcg_thrown == 0 || __tmcg_thrown == TMCG_EXC_runtime_error || __tmcg_thrown == TMCG_EXC_invalid_argument)
/* C03 (premise of completeness for every admissible challenge length): an instance built from a published group
 * uses the caller's challenge length in BOTH layers -- the shuffle argument itself and its inner
 * shuffle-of-known-content argument -- so that prover and verifier truncate challenges identically */
__CPROVER_ensures(__tmcg_thrown == 0 ==> self->l_e == ell_e && self->l_e_nizk == ell_e * 2UL
                  && self->skc != 0 && self->skc->l_e == ell_e && self->skc->l_e_nizk == ell_e * 2UL
                  && self->F_size == fieldsize && self->G_size == subgroupsize && self->com != 0)
/* C11 (import half): p, q, g, h are the first four integers of the stream, in this order; the commitment scheme is
 * built from what follows (its own constructor: group C11_params) */
__CPROVER_ensures(__tmcg_thrown == 0 ==> V(self->p) == in->tok[ENTRY_TOK(0)] && V(self->q) == in->tok[ENTRY_TOK(1)] && V(self->g) == in->tok[ENTRY_TOK(2)] && V(self->h) == in->tok[ENTRY_TOK(3)])
//@ end

//@ function GrothSKC__CheckGroup
//@ contract
__CPROVER_requires(__CPROVER_is_fresh(self, sizeof(*self)) && __CPROVER_is_fresh(self->com, sizeof(PedersenCommitmentScheme)))
__CPROVER_assigns()
/* C06 (delegating wrapper): exactly the verdict of the commitment scheme's own group check (C06_pedersen) */
__CPROVER_ensures(__CPROVER_return_value == PCG(self->com))
//@ end

//@ function GrothVSSHE__CheckGroup
//@ contract
__CPROVER_requires(__CPROVER_is_fresh(self, sizeof(*self)) && __CPROVER_is_fresh(self->skc, sizeof(GrothSKC)) && __CPROVER_is_fresh(self->skc->com, sizeof(PedersenCommitmentScheme)))
__CPROVER_assigns()
/* C06 (delegating wrapper): |q| covers both challenge lengths (Theorem 5 of [Gr05]) and the commitment scheme of the
 * inner argument passes its group check -- and nothing else: the object's own p, q, g, h are NOT examined here */
__CPROVER_ensures(__CPROVER_return_value == (UF(bits)(V(self->q)) >= self->l_e && UF(bits)(V(self->q)) >= self->l_e_nizk && PCG(self->skc->com)))
//@ end

//@ function GrothVSSHE__PublishGroup
//@ contract
__CPROVER_requires(__CPROVER_is_fresh(self, sizeof(*self)) && __CPROVER_is_fresh(self->com, sizeof(PedersenCommitmentScheme)) && __CPROVER_is_fresh(out, sizeof(ios_t)) && out->nput == 0 && g_pub_calls == 0)
__CPROVER_assigns(IOS_OUT_ASSIGNS(out), g_pub_calls, g_pub_obj, g_pub_nput)
/* C11 (export half): p, q, g, h in the order the stream constructor reads them, then -- after exactly these four
 * integers -- the group of the commitment scheme, written by that object itself (C11_params) */
__CPROVER_ensures(out->nput >= 4 && (ghost_ok == 0 ==> out->okv == V(self->p)) && (ghost_ok == 1 ==> out->okv == V(self->q)) && (ghost_ok == 2 ==> out->okv == V(self->g)) && (ghost_ok == 3 ==> out->okv == V(self->h)))
__CPROVER_ensures(g_pub_calls == 1 && g_pub_obj == __CPROVER_POINTER_OBJECT(self->com) && g_pub_nput == 4)
//@ end
