static inline void tmcg_mpz_fpowm_init(mpz_t *t) { (void)t; }
/* new PedersenCommitmentScheme(n, in, fieldsize, subgroupsize): a fresh object, or a standard exception from the stream */
static inline PedersenCommitmentScheme *PedersenCommitmentScheme__new_4(size_t n, ios_t *in, unsigned long f, unsigned long s)
{ (void)n; (void)f; (void)s; if (nondet_bool()) { in->fail = 1; __tmcg_thrown = TMCG_EXC_runtime_error; return 0; }
  return (PedersenCommitmentScheme *)__verif_new(sizeof(PedersenCommitmentScheme)); }
/* com->PublishGroup(out): under contract in C11_params; here a monitor of the call (which object, after how many integers)
 * that appends an arbitrary number of integers */
size_t g_pub_calls, g_pub_obj, g_pub_nput;
static inline void PedersenCommitmentScheme__PublishGroup(PedersenCommitmentScheme *c, ios_t *out)
{ g_pub_calls = g_pub_calls + 1; g_pub_obj = __CPROVER_POINTER_OBJECT(c); g_pub_nput = out->nput; out->acc = (long)nondet_ulong();
  size_t more; __CPROVER_assume(out->nput + more >= out->nput); if (ghost_ok >= out->nput) out->okv = (long)nondet_ulong(); out->nput = out->nput + more; }
#define ENTRY_TOK(k) ((__CPROVER_old(in->pos) + (k)) < IOS_MAXTOK ? (__CPROVER_old(in->pos) + (k)) : 0)
/* new GrothSKC(n, in, ell_e, fieldsize, subgroupsize) = allocation + the (extracted) stream constructor */
static inline GrothSKC *GrothSKC__new_5(size_t n, ios_t *in, unsigned long ell_e, unsigned long f, unsigned long s)
{ GrothSKC *o = (GrothSKC *)__verif_new(sizeof(GrothSKC)); GrothSKC__ctor_stream(o, n, in, ell_e, f, s); if (__tmcg_thrown) return 0; return o; }
/* PedersenCommitmentScheme::CheckGroup is under contract in group C06_pedersen; here the class is opaque and the
 * verdict of its group check a ghost field of the object */
#define PCG(c) ((c)->ghost_checkgroup_verdict != 0)
static inline _Bool PedersenCommitmentScheme__CheckGroup(PedersenCommitmentScheme *c) { return PCG(c); }
