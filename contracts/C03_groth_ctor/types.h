/* the commitment scheme object is opaque here (its own stream constructor is the same idiom as the one
 * proved in C12_ctor): only its existence matters */
typedef struct PedersenCommitmentScheme PedersenCommitmentScheme;
struct PedersenCommitmentScheme { int opaque; unsigned char ghost_checkgroup_verdict; /* what its own CheckGroup (under contract in C06_pedersen) answers */ };
