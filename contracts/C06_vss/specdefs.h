#ifndef C06_VSS_SPECDEFS_H
#define C06_VSS_SPECDEFS_H
#define P V(self->p)
#define Q V(self->q)
#define G V(self->g)
#define H V(self->h)
#define BITS(x) UF(bits)(x)
#define ISPRIME(x) (UF(prime)(x) != 0)
#define GCD(a, b) UF(gcd)((a), (b))
/* these classes do not store the cofactor: k = floor((p-1)/q), recomputed by CheckGroup */
#define KDIV UF(fdiv_q)(P - 1, Q)
#define LIT_LibTMCG 0xdeeb6045UL /* crc32 of the literal "LibTMCG|" (computed by the extractor) */
#define LIT_bar     0x92623c82UL /* "|"      */
#define LIT_ggen    0xd30102a7UL /* "|ggen|" */
#define ACC_MPZ(a, v) UF(acc_mpz)((a), (v))
#define ACC_LIT(a, id) UF(acc_lit)((a), (id))
#define GGEN_SEED ACC_LIT(ACC_MPZ(ACC_LIT(ACC_MPZ(ACC_LIT(0, LIT_LibTMCG), P), LIT_bar), Q), LIT_ggen)
/* the scalar conditions of the property: sizes, q | p-1 written as q*k+1 = p, primality, gcd(q,k) = 1, g and h
 * different non-trivial elements of order q */
#define SCALAR_OK (Q != 0 && BITS(P) >= self->F_size && BITS(Q) >= self->G_size && MUL(Q, KDIV) + 1 == P && ISPRIME(P) && ISPRIME(Q) \
   && GCD(Q, KDIV) == 1 && POWM(H, Q, P) == 1 && POWM(G, Q, P) == 1 && 1 < H && H < P - 1 && 1 < G && G < P - 1 && G != H)
#endif
