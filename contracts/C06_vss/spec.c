//@ function PedersenVSS__CheckGroup
//@ contract
__CPROVER_requires(__CPROVER_is_fresh(self, sizeof(*self)))
__CPROVER_requires(WORD_OK(P) && WORD_OK(P - 1) && WORD_OK(MUL(Q, KDIV)))
__CPROVER_requires(gP == P && gQ == Q && gK == KDIV && seed_acc == GGEN_SEED)
__CPROVER_requires(hash_n == hash_base && deriv_ok)
__CPROVER_assigns(MONITOR_STATE)
/* C06: accepted exactly when the scalar conditions hold and, where the generator must be derived verifiably,
 * g is the derived one */
__CPROVER_ensures(__CPROVER_return_value == (SCALAR_OK && (!(1) || G == POWM(hash_last_out, KDIV, P))))
/* the derivation that produced hash_last_out is the prescribed one and its last candidate is the first that passes */
__CPROVER_ensures(((1) && SCALAR_OK) ==> (hash_n > hash_base && deriv_ok && last_cand_passes))
__CPROVER_ensures(!(1) ==> hash_n == hash_base)
//@ loop 1
__CPROVER_assigns(MONITOR_STATE, V(foo), V(g2), U.acc, U.nput, U.okv, U.okev)
__CPROVER_loop_invariant(hash_n >= hash_base && V(bar) == gP - 1 && deriv_ok)
__CPROVER_loop_invariant(hash_n == hash_base ==> U.acc == seed_acc)
__CPROVER_loop_invariant(hash_n > hash_base ==> U.acc == expect_next && !last_cand_passes)
//@ end

//@ function GennaroJareckiKrawczykRabinDKG__CheckGroup
//@ contract
__CPROVER_requires(__CPROVER_is_fresh(self, sizeof(*self)))
__CPROVER_requires(WORD_OK(P) && WORD_OK(P - 1) && WORD_OK(MUL(Q, KDIV)))
__CPROVER_requires(gP == P && gQ == Q && gK == KDIV && seed_acc == GGEN_SEED)
__CPROVER_requires(hash_n == hash_base && deriv_ok)
__CPROVER_assigns(MONITOR_STATE)
/* C06: accepted exactly when the scalar conditions hold and, where the generator must be derived verifiably,
 * g is the derived one */
__CPROVER_ensures(__CPROVER_return_value == (SCALAR_OK && (!(self->canonical_g) || G == POWM(hash_last_out, KDIV, P))))
/* the derivation that produced hash_last_out is the prescribed one and its last candidate is the first that passes */
__CPROVER_ensures(((self->canonical_g) && SCALAR_OK) ==> (hash_n > hash_base && deriv_ok && last_cand_passes))
__CPROVER_ensures(!(self->canonical_g) ==> hash_n == hash_base)
//@ loop 1
__CPROVER_assigns(MONITOR_STATE, V(foo), V(g2), U.acc, U.nput, U.okv, U.okev)
__CPROVER_loop_invariant(hash_n >= hash_base && V(bar) == gP - 1 && deriv_ok)
__CPROVER_loop_invariant(hash_n == hash_base ==> U.acc == seed_acc)
__CPROVER_loop_invariant(hash_n > hash_base ==> U.acc == expect_next && !last_cand_passes)
//@ end

//@ function CanettiGennaroJareckiKrawczykRabinRVSS__CheckGroup
//@ contract
__CPROVER_requires(__CPROVER_is_fresh(self, sizeof(*self)))
__CPROVER_requires(WORD_OK(P) && WORD_OK(P - 1) && WORD_OK(MUL(Q, KDIV)))
__CPROVER_requires(gP == P && gQ == Q && gK == KDIV && seed_acc == GGEN_SEED)
__CPROVER_requires(hash_n == hash_base && deriv_ok)
__CPROVER_assigns(MONITOR_STATE)
/* C06: accepted exactly when the scalar conditions hold and, where the generator must be derived verifiably,
 * g is the derived one */
__CPROVER_ensures(__CPROVER_return_value == (SCALAR_OK && (!(self->canonical_g) || G == POWM(hash_last_out, KDIV, P))))
/* the derivation that produced hash_last_out is the prescribed one and its last candidate is the first that passes */
__CPROVER_ensures(((self->canonical_g) && SCALAR_OK) ==> (hash_n > hash_base && deriv_ok && last_cand_passes))
__CPROVER_ensures(!(self->canonical_g) ==> hash_n == hash_base)
//@ loop 1
__CPROVER_assigns(MONITOR_STATE, V(foo), V(g2), U.acc, U.nput, U.okv, U.okev)
__CPROVER_loop_invariant(hash_n >= hash_base && V(bar) == gP - 1 && deriv_ok)
__CPROVER_loop_invariant(hash_n == hash_base ==> U.acc == seed_acc)
__CPROVER_loop_invariant(hash_n > hash_base ==> U.acc == expect_next && !last_cand_passes)
//@ end

//@ function CanettiGennaroJareckiKrawczykRabinZVSS__CheckGroup
//@ contract
__CPROVER_requires(__CPROVER_is_fresh(self, sizeof(*self)))
__CPROVER_requires(WORD_OK(P) && WORD_OK(P - 1) && WORD_OK(MUL(Q, KDIV)))
__CPROVER_requires(gP == P && gQ == Q && gK == KDIV && seed_acc == GGEN_SEED)
__CPROVER_requires(hash_n == hash_base && deriv_ok)
__CPROVER_assigns(MONITOR_STATE)
/* C06: accepted exactly when the scalar conditions hold and, where the generator must be derived verifiably,
 * g is the derived one */
__CPROVER_ensures(__CPROVER_return_value == (SCALAR_OK && (!(self->canonical_g) || G == POWM(hash_last_out, KDIV, P))))
/* the derivation that produced hash_last_out is the prescribed one and its last candidate is the first that passes */
__CPROVER_ensures(((self->canonical_g) && SCALAR_OK) ==> (hash_n > hash_base && deriv_ok && last_cand_passes))
__CPROVER_ensures(!(self->canonical_g) ==> hash_n == hash_base)
//@ loop 1
__CPROVER_assigns(MONITOR_STATE, V(foo), V(g2), U.acc, U.nput, U.okv, U.okev)
__CPROVER_loop_invariant(hash_n >= hash_base && V(bar) == gP - 1 && deriv_ok)
__CPROVER_loop_invariant(hash_n == hash_base ==> U.acc == seed_acc)
__CPROVER_loop_invariant(hash_n > hash_base ==> U.acc == expect_next && !last_cand_passes)
//@ end

//@ function GennaroJareckiKrawczykRabinNTS__CheckGroup
//@ contract
__CPROVER_requires(__CPROVER_is_fresh(self, sizeof(*self)))
__CPROVER_requires(WORD_OK(P) && WORD_OK(P - 1) && WORD_OK(MUL(Q, KDIV)))
__CPROVER_requires(gP == P && gQ == Q && gK == KDIV && seed_acc == GGEN_SEED)
__CPROVER_requires(hash_n == hash_base && deriv_ok && ghost_sub_calls == 0)
__CPROVER_assigns(MONITOR_STATE, ghost_sub_calls, ghost_sub_obj)
/* C06: as for the stand-alone classes, and additionally the embedded dkg object must pass its own group check */
__CPROVER_ensures(__CPROVER_return_value == (SCALAR_OK && (!(self->canonical_g) || G == POWM(hash_last_out, KDIV, P)) && ghost_sub_ret))
__CPROVER_ensures(__CPROVER_return_value ==> (ghost_sub_calls == 1 && ghost_sub_obj == (const void *)self->dkg))
__CPROVER_ensures(((self->canonical_g) && SCALAR_OK) ==> (hash_n > hash_base && deriv_ok && last_cand_passes))
//@ loop 1
__CPROVER_assigns(MONITOR_STATE, V(foo), V(g2), U.acc, U.nput, U.okv, U.okev)
__CPROVER_loop_invariant(hash_n >= hash_base && V(bar) == gP - 1 && deriv_ok && ghost_sub_calls == 0)
__CPROVER_loop_invariant(hash_n == hash_base ==> U.acc == seed_acc)
__CPROVER_loop_invariant(hash_n > hash_base ==> U.acc == expect_next && !last_cand_passes)
//@ end

//@ function CanettiGennaroJareckiKrawczykRabinDKG__CheckGroup
//@ contract
__CPROVER_requires(__CPROVER_is_fresh(self, sizeof(*self)))
__CPROVER_requires(WORD_OK(P) && WORD_OK(P - 1) && WORD_OK(MUL(Q, KDIV)))
__CPROVER_requires(gP == P && gQ == Q && gK == KDIV && seed_acc == GGEN_SEED)
__CPROVER_requires(hash_n == hash_base && deriv_ok && ghost_sub_calls == 0)
__CPROVER_assigns(MONITOR_STATE, ghost_sub_calls, ghost_sub_obj)
/* C06: as for the stand-alone classes, and additionally the embedded x_rvss object must pass its own group check */
__CPROVER_ensures(__CPROVER_return_value == (SCALAR_OK && (!(self->canonical_g) || G == POWM(hash_last_out, KDIV, P)) && ghost_sub_ret))
__CPROVER_ensures(__CPROVER_return_value ==> (ghost_sub_calls == 1 && ghost_sub_obj == (const void *)self->x_rvss))
__CPROVER_ensures(((self->canonical_g) && SCALAR_OK) ==> (hash_n > hash_base && deriv_ok && last_cand_passes))
//@ loop 1
__CPROVER_assigns(MONITOR_STATE, V(foo), V(g2), U.acc, U.nput, U.okv, U.okev)
__CPROVER_loop_invariant(hash_n >= hash_base && V(bar) == gP - 1 && deriv_ok && ghost_sub_calls == 0)
__CPROVER_loop_invariant(hash_n == hash_base ==> U.acc == seed_acc)
__CPROVER_loop_invariant(hash_n > hash_base ==> U.acc == expect_next && !last_cand_passes)
//@ end

//@ function CanettiGennaroJareckiKrawczykRabinDSS__CheckGroup
//@ contract
__CPROVER_requires(__CPROVER_is_fresh(self, sizeof(*self)))
__CPROVER_requires(WORD_OK(P) && WORD_OK(P - 1) && WORD_OK(MUL(Q, KDIV)))
__CPROVER_requires(gP == P && gQ == Q && gK == KDIV && seed_acc == GGEN_SEED)
__CPROVER_requires(hash_n == hash_base && deriv_ok && ghost_sub_calls == 0)
__CPROVER_assigns(MONITOR_STATE, ghost_sub_calls, ghost_sub_obj)
/* C06: as for the stand-alone classes, and additionally the embedded dkg object must pass its own group check */
__CPROVER_ensures(__CPROVER_return_value == (SCALAR_OK && (!(self->canonical_g) || G == POWM(hash_last_out, KDIV, P)) && ghost_sub_ret))
__CPROVER_ensures(__CPROVER_return_value ==> (ghost_sub_calls == 1 && ghost_sub_obj == (const void *)self->dkg))
__CPROVER_ensures(((self->canonical_g) && SCALAR_OK) ==> (hash_n > hash_base && deriv_ok && last_cand_passes))
//@ loop 1
__CPROVER_assigns(MONITOR_STATE, V(foo), V(g2), U.acc, U.nput, U.okv, U.okev)
__CPROVER_loop_invariant(hash_n >= hash_base && V(bar) == gP - 1 && deriv_ok && ghost_sub_calls == 0)
__CPROVER_loop_invariant(hash_n == hash_base ==> U.acc == seed_acc)
__CPROVER_loop_invariant(hash_n > hash_base ==> U.acc == expect_next && !last_cand_passes)
//@ end

//@ function NaorPinkasEOTP__CheckGroup
//@ contract
__CPROVER_requires(__CPROVER_is_fresh(self, sizeof(*self)))
__CPROVER_requires(WORD_OK(P) && WORD_OK(P - 1) && WORD_OK(MUL(Q, KDIV)))
__CPROVER_assigns()
/* C06: accepted exactly when sizes, p = qk+1, primality, gcd(q,k) = 1 hold and the generator(s) are (different)
 * non-trivial elements of order q */
__CPROVER_ensures(__CPROVER_return_value == (Q != 0 && BITS(P) >= self->F_size && BITS(Q) >= self->G_size && MUL(Q, KDIV) + 1 == P && ISPRIME(P) && ISPRIME(Q) && GCD(Q, KDIV) == 1 && POWM(G, Q, P) == 1 && 1 < G && G < P - 1))
//@ end

//@ function PedersenTrapdoorCommitmentScheme__CheckGroup
//@ contract
__CPROVER_requires(__CPROVER_is_fresh(self, sizeof(*self)))
__CPROVER_requires(WORD_OK(P) && WORD_OK(MUL(Q, V(self->k))))
__CPROVER_assigns()
/* C06: accepted exactly when sizes, p = qk+1, primality, gcd(q,k) = 1 hold and the generator(s) are (different)
 * non-trivial elements of order q */
__CPROVER_ensures(__CPROVER_return_value == (BITS(P) >= self->F_size && BITS(Q) >= self->G_size && MUL(Q, V(self->k)) + 1 == P && ISPRIME(P) && ISPRIME(Q) && GCD(Q, V(self->k)) == 1 && POWM(G, Q, P) == 1 && POWM(H, Q, P) == 1 && 1 < G && G < P - 1 && 1 < H && H < P - 1 && G != H))
//@ end

//@ function JareckiLysyanskayaRVSS__CheckGroup
//@ contract
__CPROVER_requires(__CPROVER_is_fresh(self, sizeof(*self)))
__CPROVER_requires(WORD_OK(P) && WORD_OK(P - 1) && WORD_OK(MUL(Q, KDIV)))
__CPROVER_assigns()
/* C06: accepted exactly when sizes, p = qk+1, primality, gcd(q,k) = 1 hold and the generator(s) are (different)
 * non-trivial elements of order q */
__CPROVER_ensures(__CPROVER_return_value == SCALAR_OK)
//@ end

//@ function HooghSchoenmakersSkoricVillegasVRHE__CheckGroup
//@ contract
__CPROVER_requires(__CPROVER_is_fresh(self, sizeof(*self)))
__CPROVER_requires(WORD_OK(P) && WORD_OK(P - 1) && WORD_OK(MUL(Q, KDIV)))
__CPROVER_assigns()
/* C06: accepted exactly when sizes, p = qk+1, primality, gcd(q,k) = 1 hold and the generator(s) are (different)
 * non-trivial elements of order q */
__CPROVER_ensures(__CPROVER_return_value == SCALAR_OK)
//@ end

//@ function PedersenVSS__CheckElement
//@ contract
__CPROVER_requires(__CPROVER_is_fresh(self, sizeof(*self)) && __CPROVER_is_fresh(a, sizeof(*a)))
__CPROVER_assigns()
/* C06: element checks accept exactly the members of the order-q subgroup in the range 1..p-1 */
__CPROVER_ensures(__CPROVER_return_value == (0 < V(a) && V(a) < P && POWM(V(a), Q, P) == 1))
//@ end

//@ function GennaroJareckiKrawczykRabinDKG__CheckElement
//@ contract
__CPROVER_requires(__CPROVER_is_fresh(self, sizeof(*self)) && __CPROVER_is_fresh(a, sizeof(*a)))
__CPROVER_assigns()
/* C06: element checks accept exactly the members of the order-q subgroup in the range 1..p-1 */
__CPROVER_ensures(__CPROVER_return_value == (0 < V(a) && V(a) < P && POWM(V(a), Q, P) == 1))
//@ end

//@ function CanettiGennaroJareckiKrawczykRabinRVSS__CheckElement
//@ contract
__CPROVER_requires(__CPROVER_is_fresh(self, sizeof(*self)) && __CPROVER_is_fresh(a, sizeof(*a)))
__CPROVER_assigns()
/* C06: element checks accept exactly the members of the order-q subgroup in the range 1..p-1 */
__CPROVER_ensures(__CPROVER_return_value == (0 < V(a) && V(a) < P && POWM(V(a), Q, P) == 1))
//@ end

//@ function CanettiGennaroJareckiKrawczykRabinZVSS__CheckElement
//@ contract
__CPROVER_requires(__CPROVER_is_fresh(self, sizeof(*self)) && __CPROVER_is_fresh(a, sizeof(*a)))
__CPROVER_assigns()
/* C06: element checks accept exactly the members of the order-q subgroup in the range 1..p-1 */
__CPROVER_ensures(__CPROVER_return_value == (0 < V(a) && V(a) < P && POWM(V(a), Q, P) == 1))
//@ end

//@ function CanettiGennaroJareckiKrawczykRabinDKG__CheckElement
//@ contract
__CPROVER_requires(__CPROVER_is_fresh(self, sizeof(*self)) && __CPROVER_is_fresh(a, sizeof(*a)))
__CPROVER_assigns()
/* C06: element checks accept exactly the members of the order-q subgroup in the range 1..p-1 */
__CPROVER_ensures(__CPROVER_return_value == (0 < V(a) && V(a) < P && POWM(V(a), Q, P) == 1))
//@ end

//@ function CanettiGennaroJareckiKrawczykRabinDSS__CheckElement
//@ contract
__CPROVER_requires(__CPROVER_is_fresh(self, sizeof(*self)) && __CPROVER_is_fresh(a, sizeof(*a)))
__CPROVER_assigns()
/* C06: element checks accept exactly the members of the order-q subgroup in the range 1..p-1 */
__CPROVER_ensures(__CPROVER_return_value == (0 < V(a) && V(a) < P && POWM(V(a), Q, P) == 1))
//@ end

//@ function NaorPinkasEOTP__CheckElement
//@ contract
__CPROVER_requires(__CPROVER_is_fresh(self, sizeof(*self)) && __CPROVER_is_fresh(a, sizeof(*a)))
__CPROVER_assigns()
/* C06: element checks accept exactly the members of the order-q subgroup in the range 1..p-1 */
__CPROVER_ensures(__CPROVER_return_value == (0 < V(a) && V(a) < P && POWM(V(a), Q, P) == 1))
//@ end

//@ function JareckiLysyanskayaRVSS__CheckElement
//@ contract
__CPROVER_requires(__CPROVER_is_fresh(self, sizeof(*self)) && __CPROVER_is_fresh(a, sizeof(*a)))
__CPROVER_assigns()
/* C06: element checks accept exactly the members of the order-q subgroup in the range 1..p-1 */
__CPROVER_ensures(__CPROVER_return_value == (0 < V(a) && V(a) < P && POWM(V(a), Q, P) == 1))
//@ end

//@ function HooghSchoenmakersSkoricVillegasVRHE__CheckElement
//@ contract
__CPROVER_requires(__CPROVER_is_fresh(self, sizeof(*self)) && __CPROVER_is_fresh(a, sizeof(*a)))
__CPROVER_assigns()
/* C06: element checks accept exactly the members of the order-q subgroup in the range 1..p-1 */
__CPROVER_ensures(__CPROVER_return_value == (0 < V(a) && V(a) < P && POWM(V(a), Q, P) == 1))
//@ end


//@ function JareckiLysyanskayaEDCF__CheckGroup
//@ contract
__CPROVER_requires(__CPROVER_is_fresh(self, sizeof(*self)) && ghost_sub_calls == 0)
__CPROVER_assigns(ghost_sub_calls, ghost_sub_obj)
/* C06 (delegating wrapper): exactly the verdict of the group check of the embedded RVSS object, asked once */
__CPROVER_ensures(__CPROVER_return_value == ghost_sub_ret && ghost_sub_calls == 1 && ghost_sub_obj == (const void *)self->rvss)
//@ end
