#include "specdefs.h"
/* ---- ghost monitor of the verifiable generator derivation -----------------
 * Loop invariants must be call-free (CBMC), so the facts about uninterpreted
 * terms are computed HERE, at the moment the string hash is called, into
 * ghost scalars; the contracts then talk about the scalars.
 *
 * The derivation prescribed by the library's documentation (FIPS 186-3
 * A.2.3 style) is:  U_0 = "LibTMCG|" p "|" q "|ggen|";  c_i = H(U_i)^k mod p;
 * U_{i+1} = U_i c_i "|";  the generator is the first c_i with
 * c_i != 0, 1, p-1 and c_i^q = 1 (mod p).
 * deriv_ok stays 1 exactly as long as the sequence of hash calls follows it. */
long UF(hashs)(long);
long gP, gQ, gK;         /* abstract values of p, q, k (tied to the object by a requires) */
long seed_acc;           /* tied to GGEN_SEED by a requires */
size_t hash_n, hash_base;
long hash_last_in, hash_last_out, expect_next;
_Bool last_cand_passes;  /* candidate derived from the most recent hash passes the generator test */
_Bool deriv_ok;
#define GEN_TEST_G(x) ((x) != 0 && (x) != 1 && (x) != gP - 1 && POWM((x), gQ, gP) == 1)
static inline void tmcg_mpz_shash_str(mpz_ptr r, str_t *s)
{
  long h = UF(hashs)(s->absid);
  __CPROVER_assume(h >= 0);
  if (hash_n == hash_base)
  { if (s->absid != seed_acc) deriv_ok = 0; }            /* first input is the seed string */
  else
  {
    if (s->absid != expect_next) deriv_ok = 0;            /* input extends the previous one by candidate and "|" */
    if (last_cand_passes) deriv_ok = 0;                   /* a passing candidate must end the derivation */
  }
  long cand = POWM(h, gK, gP);
  expect_next = ACC_LIT(ACC_MPZ(s->absid, cand), LIT_bar);
  last_cand_passes = GEN_TEST_G(cand);
  hash_last_in = s->absid; hash_last_out = h;
  __CPROVER_assume(hash_n + 1 > hash_n);
  hash_n = hash_n + 1;
  r->v = h;
}
#define MONITOR_STATE hash_n, hash_last_in, hash_last_out, expect_next, last_cand_passes, deriv_ok, ev_n

/* group check of an embedded sub-protocol object: recorded, result arbitrary but fixed for the run */
size_t ghost_sub_calls; const void *ghost_sub_obj; _Bool ghost_sub_ret;
static inline _Bool SUB_CheckGroup(void *x) { __CPROVER_assume(ghost_sub_calls + 1 > ghost_sub_calls); ghost_sub_calls++; ghost_sub_obj = x; return ghost_sub_ret; }
