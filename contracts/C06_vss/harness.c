void h_PedersenVSS(void) { PedersenVSS *self; _Bool r = PedersenVSS__CheckGroup(self);
  __CPROVER_assert(!r, "REACHABILITY-CANARY (must fail): an accepted parameter set exists"); }
void h_GennaroJareckiKrawczykRabinDKG(void) { GennaroJareckiKrawczykRabinDKG *self; _Bool r = GennaroJareckiKrawczykRabinDKG__CheckGroup(self);
  __CPROVER_assert(!r, "REACHABILITY-CANARY (must fail): an accepted parameter set exists"); }
void h_CanettiGennaroJareckiKrawczykRabinRVSS(void) { CanettiGennaroJareckiKrawczykRabinRVSS *self; _Bool r = CanettiGennaroJareckiKrawczykRabinRVSS__CheckGroup(self);
  __CPROVER_assert(!r, "REACHABILITY-CANARY (must fail): an accepted parameter set exists"); }
void h_CanettiGennaroJareckiKrawczykRabinZVSS(void) { CanettiGennaroJareckiKrawczykRabinZVSS *self; _Bool r = CanettiGennaroJareckiKrawczykRabinZVSS__CheckGroup(self);
  __CPROVER_assert(!r, "REACHABILITY-CANARY (must fail): an accepted parameter set exists"); }
void h_GennaroJareckiKrawczykRabinNTS(void) { GennaroJareckiKrawczykRabinNTS *self; _Bool r = GennaroJareckiKrawczykRabinNTS__CheckGroup(self);
  __CPROVER_assert(!r, "REACHABILITY-CANARY (must fail): an accepted parameter set exists"); }
void h_CanettiGennaroJareckiKrawczykRabinDKG(void) { CanettiGennaroJareckiKrawczykRabinDKG *self; _Bool r = CanettiGennaroJareckiKrawczykRabinDKG__CheckGroup(self);
  __CPROVER_assert(!r, "REACHABILITY-CANARY (must fail): an accepted parameter set exists"); }
void h_CanettiGennaroJareckiKrawczykRabinDSS(void) { CanettiGennaroJareckiKrawczykRabinDSS *self; _Bool r = CanettiGennaroJareckiKrawczykRabinDSS__CheckGroup(self);
  __CPROVER_assert(!r, "REACHABILITY-CANARY (must fail): an accepted parameter set exists"); }
void h_NaorPinkasEOTP(void) { NaorPinkasEOTP *self; _Bool r = NaorPinkasEOTP__CheckGroup(self);
  __CPROVER_assert(!r, "REACHABILITY-CANARY (must fail): an accepted parameter set exists"); }
void h_PedersenTrapdoorCommitmentScheme(void) { PedersenTrapdoorCommitmentScheme *self; _Bool r = PedersenTrapdoorCommitmentScheme__CheckGroup(self);
  __CPROVER_assert(!r, "REACHABILITY-CANARY (must fail): an accepted parameter set exists"); }
void h_JareckiLysyanskayaRVSS(void) { JareckiLysyanskayaRVSS *self; _Bool r = JareckiLysyanskayaRVSS__CheckGroup(self);
  __CPROVER_assert(!r, "REACHABILITY-CANARY (must fail): an accepted parameter set exists"); }
void h_HooghSchoenmakersSkoricVillegasVRHE(void) { HooghSchoenmakersSkoricVillegasVRHE *self; _Bool r = HooghSchoenmakersSkoricVillegasVRHE__CheckGroup(self);
  __CPROVER_assert(!r, "REACHABILITY-CANARY (must fail): an accepted parameter set exists"); }
void he_PedersenVSS(void) { PedersenVSS *self; mpz_srcptr a; _Bool r = PedersenVSS__CheckElement(self, a);
  __CPROVER_assert(!r, "REACHABILITY-CANARY (must fail): an accepted element exists"); }
void he_GennaroJareckiKrawczykRabinDKG(void) { GennaroJareckiKrawczykRabinDKG *self; mpz_srcptr a; _Bool r = GennaroJareckiKrawczykRabinDKG__CheckElement(self, a);
  __CPROVER_assert(!r, "REACHABILITY-CANARY (must fail): an accepted element exists"); }
void he_CanettiGennaroJareckiKrawczykRabinRVSS(void) { CanettiGennaroJareckiKrawczykRabinRVSS *self; mpz_srcptr a; _Bool r = CanettiGennaroJareckiKrawczykRabinRVSS__CheckElement(self, a);
  __CPROVER_assert(!r, "REACHABILITY-CANARY (must fail): an accepted element exists"); }
void he_CanettiGennaroJareckiKrawczykRabinZVSS(void) { CanettiGennaroJareckiKrawczykRabinZVSS *self; mpz_srcptr a; _Bool r = CanettiGennaroJareckiKrawczykRabinZVSS__CheckElement(self, a);
  __CPROVER_assert(!r, "REACHABILITY-CANARY (must fail): an accepted element exists"); }
void he_CanettiGennaroJareckiKrawczykRabinDKG(void) { CanettiGennaroJareckiKrawczykRabinDKG *self; mpz_srcptr a; _Bool r = CanettiGennaroJareckiKrawczykRabinDKG__CheckElement(self, a);
  __CPROVER_assert(!r, "REACHABILITY-CANARY (must fail): an accepted element exists"); }
void he_CanettiGennaroJareckiKrawczykRabinDSS(void) { CanettiGennaroJareckiKrawczykRabinDSS *self; mpz_srcptr a; _Bool r = CanettiGennaroJareckiKrawczykRabinDSS__CheckElement(self, a);
  __CPROVER_assert(!r, "REACHABILITY-CANARY (must fail): an accepted element exists"); }
void he_NaorPinkasEOTP(void) { NaorPinkasEOTP *self; mpz_srcptr a; _Bool r = NaorPinkasEOTP__CheckElement(self, a);
  __CPROVER_assert(!r, "REACHABILITY-CANARY (must fail): an accepted element exists"); }
void he_JareckiLysyanskayaRVSS(void) { JareckiLysyanskayaRVSS *self; mpz_srcptr a; _Bool r = JareckiLysyanskayaRVSS__CheckElement(self, a);
  __CPROVER_assert(!r, "REACHABILITY-CANARY (must fail): an accepted element exists"); }
void he_HooghSchoenmakersSkoricVillegasVRHE(void) { HooghSchoenmakersSkoricVillegasVRHE *self; mpz_srcptr a; _Bool r = HooghSchoenmakersSkoricVillegasVRHE__CheckElement(self, a);
  __CPROVER_assert(!r, "REACHABILITY-CANARY (must fail): an accepted element exists"); }
void h_JareckiLysyanskayaEDCF(void) { JareckiLysyanskayaEDCF *self; JareckiLysyanskayaEDCF__CheckGroup(self); }
