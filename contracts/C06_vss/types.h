typedef struct { void *data; size_t size; size_t cap; } vec_vec_mpz; /* opaque here: CheckGroup does not look into the share matrices */
