//@ function tmcg_mpz_grandomm
//@ contract
__CPROVER_requires(MPZ_OK(r) && MPZ_OK(m) && V(m) > 0 && UF(bits)(V(m)) < ((unsigned long)1 << 32))
__CPROVER_assigns(V(r), g_rand_bytes, g_rand_buf, g_imported)
/* C07: no value ever lies outside its range ... */
__CPROVER_ensures(0 <= V(r) && V(r) < V(m) && V(r) == MOD(g_imported, V(m)))
/* ... and the residue is taken of a uniform value with at least 64 bits more than the modulus (BSI TR-02102-1 B.4
 * method 2: the statistical distance from uniform is then below 2^-64), for every modulus length */
__CPROVER_ensures(8 * g_rand_bytes >= UF(bits)(V(m)) + 64)
//@ end
