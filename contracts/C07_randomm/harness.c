void h_grandomm(void) { mpz_ptr r; mpz_srcptr m; enum gcry_random_level l; tmcg_mpz_grandomm(r, m, l); }
