/* libgcrypt random octets and GMP import (assumed contracts on dependencies) with a monitor of how much randomness
 * was drawn for the value that is then reduced */
size_t g_rand_bytes; const void *g_rand_buf; long g_imported;
static inline void gcry_randomize(void *buf, size_t n, enum gcry_random_level level)
{ (void)level; __CPROVER_assert(n == 0 || __CPROVER_w_ok(buf, n), "gcry_randomize: buffer holds n octets"); g_rand_bytes = n; g_rand_buf = buf; if (n > 0) __CPROVER_havoc_object(buf); }
static inline void mpz_import(mpz_ptr r, size_t count, int order, size_t size, int endian, size_t nails, const void *op)
{ (void)order; (void)endian; __CPROVER_assert(nails == 0 && size == 1, "model limit: octet-wise mpz_import");
  __CPROVER_assert(count == 0 || __CPROVER_r_ok(op, count), "mpz_import: source holds count octets");
  __CPROVER_assert(op == g_rand_buf && count == g_rand_bytes, "the imported octets are exactly the random octets just drawn");
  long v; __CPROVER_assume(v >= 0 && UF(bits)(v) <= 8 * count); g_imported = v; r->v = v; E_POISON(r); }
