void h_qr_group(void) { BarnettSmartVTMF_dlog_GroupQR *self; BarnettSmartVTMF_dlog_GroupQR__CheckGroup(self); }
void h_qr_elem(void) { BarnettSmartVTMF_dlog_GroupQR *self; mpz_srcptr a; BarnettSmartVTMF_dlog_GroupQR__CheckElement(self, a); }
