#ifndef C06_QR_SPECDEFS_H
#define C06_QR_SPECDEFS_H
#include "../C06_vtmf/specdefs.h"
#define JACOBI(a, n) UF(jacobi)((a), (n))
#endif
