//@ function BarnettSmartVTMF_dlog_GroupQR__CheckGroup
//@ contract
__CPROVER_requires(__CPROVER_is_fresh(self, sizeof(*self)) && WORD_OK(P) && WORD_OK(UF(mul_2exp)(Q, 1)))
__CPROVER_assigns()
/* C06 (quadratic-residue group with shortened exponents): accepted exactly when the sizes are as configured,
 * p = 2q+1, p and q prime, p = 7 mod 8, 1 < g < p-1, g is a quadratic residue, and -- when the generator must be
 * the canonical one -- |p| >= exponent size and g = 2^(2^(|p| - exponent size)) mod p */
__CPROVER_ensures(__CPROVER_return_value ==
   (BITS(P) >= self->F_size && BITS(Q) >= self->G_size && UF(mul_2exp)(Q, 1) + 1 == P && ISPRIME(P) && ISPRIME(Q)
    && UF(congruent_ui)(P, 7, 8) && 1 < G && G < P - 1 && JACOBI(G, P) == 1
    && (!self->canonical_g || (BITS(P) >= self->E_size && G == POWM(2, UF(ui_pow_ui)(2, BITS(P) - self->E_size), P)))))
//@ end

//@ function BarnettSmartVTMF_dlog_GroupQR__CheckElement
//@ contract
__CPROVER_requires(__CPROVER_is_fresh(self, sizeof(*self)) && MPZ_OK(a))
__CPROVER_assigns()
/* C06: element checks accept exactly the quadratic residues in the range 1..p-1 */
__CPROVER_ensures(__CPROVER_return_value == (0 < V(a) && V(a) < P && JACOBI(V(a), P) == 1))
//@ end
