#include "specdefs.h"
