#include "specdefs.h"
/* term-level model of TMCG_MaskCard (the real function is under contract in group C01_vtmf) */
static inline void SchindelhauerTMCG__TMCG_MaskCard(SchindelhauerTMCG *self, VTMF_Card *c, VTMF_Card *cc, VTMF_CardSecret *cs,
                                                    BarnettSmartVTMF_dlog *vtmf, _Bool tap)
{ (void)self; (void)tap; long a = MASK1(V(c->c_1), V(cs->r)), b = MASK2(V(c->c_2), V(cs->r)); cc->c_1->v = a; cc->c_2->v = b; }
/* R13: find_position = first position whose .first equals index, else size (linear search model) */
static inline size_t TMCG_StackSecret_VTMF_CardSecret__find_position(TMCG_StackSecret_VTMF_CardSecret *self, size_t index)
{ for (size_t k = 0; k < MAXN; k++) if (k < self->stack.size && self->stack.data[k].first == index) return k; return self->stack.size; }
static inline _Bool VTMF_CardSecret__import(VTMF_CardSecret *cs, str_t s) { (void)s; cs->r->v = (long)nondet_ulong(); return nondet_bool(); }

/* ---------------------------------------------------------------------------
 * Ghost monitor of one cut-and-choose run, sampled at the arbitrary round
 * ghost_r (never assigned).  The per-round objects of the verifier are locals
 * that vanish at the end of the round, so what the property needs is recorded
 * by the dependency stubs at the moment they are called.
 * ------------------------------------------------------------------------- */
size_t ghost_r;                /* arbitrary round, never assigned */
size_t ghost_i2;               /* a second arbitrary position, never assigned */
_Bool ghost_ce1, ghost_ce2;    /* names of the element-check terms of card ghost_i */
size_t bit_n;                  /* fresh 1-bit draws so far (one per round)                 */
long gr_bit; size_t gr_bit_ev; /* value / event number of draw number ghost_r              */
size_t mix_n;                  /* re-mix calls so far (one per round)                      */
TMCG_Stack_VTMF_Card *gr_src;  /* stack that was re-mixed in round ghost_r                 */
size_t gr_ss_size;             /* size of the received stack secret of round ghost_r       */
size_t gr_ss_first[MAXN];      /* its index component                                      */
size_t gr_src_size;            /* size of the re-mixed source stack                        */
long gr_remix_acc;             /* content of the re-mixed stack of round ghost_r as written to the hash stream */
size_t hash_n;                 /* string-hash calls so far (one per round)                 */
long gr_hash_in, gr_hash_out;  /* input content / output of hash call number ghost_r       */
size_t putstack_n; long last_putstack_acc;

/* fresh random bits (tmcg_mpz_srandomb, libgcrypt): arbitrary value below 2^size */
static inline void tmcg_mpz_srandomb(mpz_ptr r, unsigned long size)
{
  long v = (long)nondet_ulong();
  __CPROVER_assume(size < 63 && 0 <= v && v < (1L << size));
  if (bit_n == ghost_r) { gr_bit = v; gr_bit_ev = ev_n; }
  __CPROVER_assume(ev_n + 1 > ev_n && bit_n + 1 > bit_n); ev_n = ev_n + 1; bit_n = bit_n + 1;
  r->v = v;
}
/* string hash: uninterpreted function of the abstract content */
long UF(hashs)(long);
static inline void tmcg_mpz_shash_str(mpz_ptr r, str_t *s)
{
  long h = UF(hashs)(s->absid); __CPROVER_assume(h >= 0);
  if (hash_n == ghost_r) { gr_hash_in = s->absid; gr_hash_out = h; }
  __CPROVER_assume(hash_n + 1 > hash_n); hash_n = hash_n + 1;
  r->v = h;
}
/* implicit member construction of the (empty) template classes */
static inline void TMCG_Stack_VTMF_Card__ctor_0(TMCG_Stack_VTMF_Card *s) { vec_VTMF_Card__ctor_0(&s->stack); }
static inline void TMCG_StackSecret_VTMF_CardSecret__ctor_0(TMCG_StackSecret_VTMF_CardSecret *s) { vec_pair_ulong_VTMF_CardSecret__ctor_0(&s->stack); }
/* operator<<(ostream&, TMCG_Stack<VTMF_Card>): "stk^" size "^" card "^" ... -- the WHOLE stack (size and both
 * components of every card, in order) is folded into the stream content */
long UF(acc_card)(long, long, long);
static inline void ios_put_TMCG_Stack_VTMF_Card(ios_t *o, TMCG_Stack_VTMF_Card *s)
{
  long a = UF(acc_ulong)(o->acc, s->stack.size);
  for (size_t k = 0; k < MAXN; k++)
    if (k < s->stack.size) a = UF(acc_card)(a, V(s->stack.data[k].c_1), V(s->stack.data[k].c_2));
  o->acc = a;
  last_putstack_acc = a;
  if (putstack_n == ghost_r) gr_remix_acc = a;
  __CPROVER_assume(putstack_n + 1 > putstack_n); putstack_n = putstack_n + 1;
}
/* branches that are compiled out when TMCG_HASH_COMMITMENT is true (it is): arbitrary outcome */
static inline void ios_get_TMCG_Stack_VTMF_Card(ios_t *in, TMCG_Stack_VTMF_Card *s) { (void)s; in->fail = nondet_bool(); }
static inline _Bool TMCG_Stack_VTMF_Card__op_ne(TMCG_Stack_VTMF_Card *a, TMCG_Stack_VTMF_Card *b) { (void)a; (void)b; return nondet_bool(); }
/* operator>>(istream&, TMCG_StackSecret<>&) of TMCG_StackSecret.hh: reads one line, calls import(), sets failbit
 * when import refuses.  TRUSTED stub of that four-line template; import() itself is the contract proved in
 * group C02_stack (imported, replaced). */
static inline void ios_get_TMCG_StackSecret_VTMF_CardSecret(ios_t *in, TMCG_StackSecret_VTMF_CardSecret *ss)
{
  str_t line; line.data = 0; line.size = 0; line.cap = 0; line.absid = (long)nondet_ulong();
  if (in->fail || in->pos >= in->ntok) { in->fail = 1; return; }
  if (in->pos == ghost_ik) in->ikev = ev_n;
  __CPROVER_assume(ev_n + 1 > ev_n); ev_n = ev_n + 1;
  in->pos = in->pos + 1;
  if (!TMCG_StackSecret_VTMF_CardSecret__import(ss, line)) in->fail = 1;
}
/* the re-mix: pure ghost logging, then the contract proved in group C02_stack */
static inline void SchindelhauerTMCG__TMCG_MixStack(SchindelhauerTMCG *self, TMCG_Stack_VTMF_Card *s, TMCG_Stack_VTMF_Card *s2,
                                                    TMCG_StackSecret_VTMF_CardSecret *ss, BarnettSmartVTMF_dlog *vtmf, _Bool tap)
{
  if (mix_n == ghost_r)
  {
    gr_src = s; gr_src_size = s->stack.size; gr_ss_size = ss->stack.size;
    for (size_t k = 0; k < MAXN; k++) if (k < ss->stack.size) gr_ss_first[k] = ss->stack.data[k].first;
  }
  __CPROVER_assume(mix_n + 1 > mix_n); mix_n = mix_n + 1;
  SchindelhauerTMCG__TMCG_MixStack__spec(self, s, s2, ss, vtmf, tap);
}
#define MONITOR bit_n, gr_bit, gr_bit_ev, mix_n, gr_src, gr_ss_size, __CPROVER_object_whole(gr_ss_first), gr_src_size, \
                hash_n, gr_hash_in, gr_hash_out, last_putstack_acc, ev_n, __parse_end_char
