//@ function SchindelhauerTMCG__TMCG_VerifyStackEquality
//@ contract
__CPROVER_requires(__CPROVER_is_fresh(self, sizeof(*self)) && STACK_OK(s) && STACK_OK(s2) && __CPROVER_is_fresh(vtmf, sizeof(*vtmf)))
__CPROVER_requires(IOS_IN_OK(in) && __CPROVER_is_fresh(out, sizeof(*out)) && __tmcg_thrown == 0 && VP > 1)
__CPROVER_requires(bit_n == 0 && mix_n == 0 && hash_n == 0 && out->nput == 0 && in->pos == 0 && LEVEL <= TMCG_MAX_ZNP_ITERATIONS)
/* the challenge of round ghost_r is output integer number ghost_r; its commitment is input token 2*ghost_r */
__CPROVER_requires(ghost_ok == ghost_r && ghost_ik == 2 * ghost_r)
#ifdef ENFORCE_SchindelhauerTMCG__TMCG_VerifyStackEquality
/* ghost names of the element-check terms of card ghost_i (loop invariants must be call-free) */
__CPROVER_requires(ghost_i < s2->stack.size ==> ghost_ce1 == CE(C1(s2, ghost_i)) && ghost_ce2 == CE(C2(s2, ghost_i)))
#endif
__CPROVER_assigns(IOS_IN_ASSIGNS(in), out->acc, out->nput, out->okv, out->okev, __tmcg_thrown, MONITOR)
/* C12: refusal is clean -- the only exception is the runtime_error of a malformed number */
__CPROVER_ensures(__tmcg_thrown == 0 || (__tmcg_thrown == TMCG_EXC_runtime_error && in->fail))
/* C04: an accepted proof has equal stack sizes and every card of the claimed shuffle is a group element */
__CPROVER_ensures(__CPROVER_return_value ==> __tmcg_thrown == 0 && s->stack.size == s2->stack.size)
__CPROVER_ensures(__CPROVER_return_value && ghost_i < s2->stack.size ==> CE(C1(s2, ghost_i)) && CE(C2(s2, ghost_i)))
#ifdef PART_MONITOR
/* one fresh bit, one re-mix and one hash comparison per round ... */
__CPROVER_ensures(__CPROVER_return_value ==> bit_n == LEVEL && mix_n == LEVEL && hash_n == LEVEL && out->nput == LEVEL)
/* ... and in EVERY round (ghost_r arbitrary): the challenge sent is that fresh bit, it is drawn and sent only
 * after the commitment was received, the bit selects which stack is re-mixed with the received secret, the hash
 * of the WHOLE re-mixed stack equals the commitment, the secret has the size of the stacks */
__CPROVER_ensures(__CPROVER_return_value && ghost_r < LEVEL ==>
   (gr_bit == 0 || gr_bit == 1) && out->okv == gr_bit
   && in->ikev < out->okev
   && gr_src == ((gr_bit & 1) ? s2 : s)
   && gr_ss_size == s->stack.size
   && gr_hash_out == in->tok[2 * ghost_r])
/* ... and when a rotation is claimed the received index vector is a cyclic shift */
__CPROVER_ensures(__CPROVER_return_value && cyclic && ghost_r < LEVEL && ghost_i < gr_ss_size ==>
   gr_ss_first[ghost_i] == (gr_ss_first[0] + ghost_i) % gr_ss_size)
#endif
//@ loop 1
__CPROVER_assigns(i)
__CPROVER_loop_invariant(i <= s2->stack.size)
__CPROVER_loop_invariant(ghost_i < i ==> ghost_ce1 && ghost_ce2)
__CPROVER_decreases(s2->stack.size - i)
//@ loop 2
__CPROVER_assigns(i, V(foo), V(bar), IOS_IN_ASSIGNS(in), out->acc, out->nput, out->okv, out->okev, __tmcg_thrown, MONITOR)
__CPROVER_loop_invariant(i <= LEVEL && __tmcg_thrown == 0 && bit_n == i && mix_n == i && hash_n == i && out->nput == i && in->pos == 2 * i && !in->fail)
#ifdef PART_MONITOR
__CPROVER_loop_invariant(ghost_r < i ==> (gr_bit == 0 || gr_bit == 1) && out->okv == gr_bit && in->ikev < out->okev
   && gr_src == ((gr_bit & 1) ? s2 : s) && gr_ss_size == s->stack.size && gr_hash_out == in->tok[2 * ghost_r])
__CPROVER_loop_invariant(ghost_r < i && cyclic ==> ALL(ck, ck < gr_ss_size ==> gr_ss_first[ck] == (gr_ss_first[0] + ck) % gr_ss_size))
#endif
__CPROVER_decreases(LEVEL - i)
//@ loop 3
__CPROVER_assigns(j, cy)
__CPROVER_loop_invariant(1 <= j && j <= ss.stack.size && cy == ss.stack.data[0].first + (j - 1))
#ifdef PART_MONITOR
__CPROVER_loop_invariant(ALL(cj, cj < j ==> ss.stack.data[cj].first == (ss.stack.data[0].first + cj) % ss.stack.size))
#endif
__CPROVER_decreases(ss.stack.size - j)
//@ end
