void h_vse(void) { SchindelhauerTMCG *self; TMCG_Stack_VTMF_Card *s, *s2; _Bool cyc; BarnettSmartVTMF_dlog *vtmf; ios_t *in, *out;
  SchindelhauerTMCG__TMCG_VerifyStackEquality(self, s, s2, cyc, vtmf, in, out); }
