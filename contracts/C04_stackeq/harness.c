#ifndef LEVELMAX
#define LEVELMAX 2
#endif
/* bounded stand-in (see group.json): the REAL verifier against every prover transcript */
void h_vse(void)
{
  SchindelhauerTMCG self; __CPROVER_assume(self.TMCG_SecurityLevel <= LEVELMAX);
  BarnettSmartVTMF_dlog *vtmf = (BarnettSmartVTMF_dlog *)__verif_new(sizeof(BarnettSmartVTMF_dlog)); __CPROVER_assume(V(vtmf->p) > 1);
  TMCG_Stack_VTMF_Card s, s2; TMCG_Stack_VTMF_Card__ctor_0(&s); TMCG_Stack_VTMF_Card__ctor_0(&s2);
  s.stack.size = nondet_ulong(); s2.stack.size = nondet_ulong(); /* arbitrary contents, arbitrary sizes */
  __CPROVER_assume(s.stack.size <= MAXN && s2.stack.size <= MAXN);
  ios_t in, out; ios_t__ctor_0(&in); ios_t__ctor_0(&out);
  in.tok = (long *)__verif_new_array(sizeof(long), IOS_MAXTOK); in.ntok = nondet_ulong(); __CPROVER_assume(in.ntok <= 8); in.eof_after_last = nondet_bool();
  _Bool cyclic = nondet_bool();
  __CPROVER_assume(bit_n == 0 && mix_n == 0 && hash_n == 0 && putstack_n == 0 && ev_n == 0 && __tmcg_thrown == 0);
  __CPROVER_assume(ghost_ok == ghost_r && ghost_ik == 2 * ghost_r);
  _Bool ok = SchindelhauerTMCG__TMCG_VerifyStackEquality(&self, &s, &s2, cyclic, vtmf, &in, &out);
  /* C12: clean refusal */
  __CPROVER_assert(__tmcg_thrown == 0 || (__tmcg_thrown == TMCG_EXC_runtime_error && in.fail), "only a malformed number can raise an exception");
  if (ok)
  {
    __CPROVER_assert(self.TMCG_SecurityLevel < 2 || !cyclic || s.stack.size < 2, "REACHABILITY-CANARY (must fail): an accepting run with 2 rounds, rotation and >= 2 cards exists");
    size_t L = self.TMCG_SecurityLevel;
    __CPROVER_assert(s.stack.size == s2.stack.size, "C04: accepted => equal stack sizes");
    if (ghost_i < s2.stack.size)
      __CPROVER_assert(CE(C1(&s2, ghost_i)) && CE(C2(&s2, ghost_i)), "C04: accepted => every card of the claimed shuffle is a group element");
    __CPROVER_assert(bit_n == L && mix_n == L && hash_n == L && out.nput == L, "C04: one fresh bit, one re-mix, one hash comparison per round");
    if (ghost_r < L)
    {
      __CPROVER_assert((gr_bit == 0 || gr_bit == 1) && out.okv == gr_bit, "C04: the challenge sent is the fresh bit of that round");
      __CPROVER_assert(in.ikev < out.okev, "C04: the challenge is sent only after the commitment was received");
      __CPROVER_assert(gr_src == ((gr_bit & 1) ? &s2 : &s), "C04: the bit selects which stack is re-mixed with the received secret");
      __CPROVER_assert(gr_ss_size == s.stack.size && gr_src_size == s.stack.size, "C04/C12: the received secret has the size of the stacks");
      __CPROVER_assert(gr_hash_out == in.tok[2 * ghost_r] && gr_hash_in == UF(acc_endl)(gr_remix_acc), "C04: the hash of the WHOLE re-mixed stack equals the commitment");
      /* the witness the verifier re-mixes with is a permutation: no source card is used twice (duplicated) and, the
       * sizes being equal, none is dropped (ghost_i, ghost_i2: two arbitrary positions) */
      if (ghost_i < gr_ss_size)
        __CPROVER_assert(gr_ss_first[ghost_i] < gr_ss_size, "C04: every index of the received stack secret designates a card of the stack");
      if (ghost_i < gr_ss_size && ghost_i2 < gr_ss_size && ghost_i != ghost_i2)
        __CPROVER_assert(gr_ss_first[ghost_i] != gr_ss_first[ghost_i2], "C04: the received stack secret uses no source card twice (bijection)");
      if (cyclic && ghost_i < gr_ss_size)
        __CPROVER_assert(gr_ss_first[ghost_i] == (gr_ss_first[0] + ghost_i) % gr_ss_size, "C04: a claimed rotation is a cyclic shift");
    }
  }
}
