#ifndef C04_STACKEQ_SPECDEFS_H
#define C04_STACKEQ_SPECDEFS_H
#include "../C02_stack/specdefs.h"
#include "../C06_vtmf/specdefs.h"
#define LEVEL (self->TMCG_SecurityLevel)
#define IOS_GOOD(s) (!(s)->fail && !((s)->pos >= (s)->ntok && (s)->eof_after_last))
/* element check as a term (contract of BarnettSmartVTMF_dlog::CheckElement, group C06_vtmf) */
#define CE(a) (0 < (a) && (a) < VP && POWM((a), VQ, VP) == 1)
#endif
