//@ function BarnettSmartVTMF_dlog__ctor_stream
//@ contract
__CPROVER_requires(__CPROVER_is_fresh(self, sizeof(*self)) && IOS_IN_OK(in) && __tmcg_thrown == 0)
__CPROVER_assigns(__CPROVER_object_whole(self), IOS_IN_ASSIGNS(in), __tmcg_thrown, ghost_pre_tab, ghost_pre_t)
/* C12: whatever the stream contains, construction ends normally or with a standard exception
 * (malformed number, refused zero modulus) -- no GMP division by zero, no memory error */
__CPROVER_ensures(__tmcg_thrown == 0 || __tmcg_thrown == TMCG_EXC_runtime_error || __tmcg_thrown == TMCG_EXC_invalid_argument)
/* the tables exist afterwards */
__CPROVER_ensures(__tmcg_thrown == 0 ==> __CPROVER_is_fresh(self->fpowm_table_g, TMCG_MAX_FPOWM_T * sizeof(mpz_t))
                                      && __CPROVER_is_fresh(self->fpowm_table_h, TMCG_MAX_FPOWM_T * sizeof(mpz_t)))
__CPROVER_ensures(__tmcg_thrown == 0 ==> self->F_size == fieldsize && self->G_size == subgroupsize && self->canonical_g == canonical_g_usage
                  && in->pos == __CPROVER_old(in->pos) + 4 && V(self->p) == TOK(in, 0) && V(self->q) == TOK(in, 1) && V(self->g) == TOK(in, 2) && V(self->k) == TOK(in, 3))
//@ end

//@ function BarnettSmartVTMF_dlog_GroupQR__ctor_stream
//@ contract
__CPROVER_requires(__CPROVER_is_fresh(self, sizeof(*self)) && IOS_IN_OK(in) && __tmcg_thrown == 0)
/* configuration parameters (not wire data): a sensible exponent size */
__CPROVER_requires(exponentsize >= 2)
__CPROVER_assigns(__CPROVER_object_whole(self), IOS_IN_ASSIGNS(in), __tmcg_thrown, ghost_pre_tab, ghost_pre_t)
/* C12: whatever the stream contains, construction ends normally or with a standard exception */
__CPROVER_ensures(__tmcg_thrown == 0 || __tmcg_thrown == TMCG_EXC_runtime_error || __tmcg_thrown == TMCG_EXC_invalid_argument)
/* a field prime shorter than the exponent size leaves the error indicator g = 0 */
__CPROVER_ensures(__tmcg_thrown == 0 && UF(bits)(V(self->p)) < exponentsize ==> V(self->g) == 0)
//@ end

//@ function BarnettSmartVTMF_dlog__PublishGroup
//@ contract
__CPROVER_requires(__CPROVER_is_fresh(self, sizeof(*self)) && __CPROVER_is_fresh(out, sizeof(ios_t)) && out->nput == 0)
__CPROVER_assigns(IOS_OUT_ASSIGNS(out))
/* C11 (export half): exactly the four integers p, q, g, k, in the order the stream constructor reads them */
__CPROVER_ensures(out->nput == 4)
__CPROVER_ensures((ghost_ok == 0 ==> out->okv == V(self->p)) && (ghost_ok == 1 ==> out->okv == V(self->q)) && (ghost_ok == 2 ==> out->okv == V(self->g)) && (ghost_ok == 3 ==> out->okv == V(self->k)))
//@ end
