#include "../C05_vtmf/specdefs.h"
