void h_ctor(void) { BarnettSmartVTMF_dlog *self; ios_t *in; unsigned long f, g; _Bool c, p; BarnettSmartVTMF_dlog__ctor_stream(self, in, f, g, c, p);
  __CPROVER_assert(__tmcg_thrown != 0, "REACHABILITY-CANARY (must fail): a construction without exception exists"); }
void h_ctor_qr(void) { BarnettSmartVTMF_dlog_GroupQR *self; ios_t *in; unsigned long f, e; BarnettSmartVTMF_dlog_GroupQR__ctor_stream(self, in, f, e);
  __CPROVER_assert(__tmcg_thrown != 0, "REACHABILITY-CANARY (must fail): a construction without exception exists"); }
void h_publish(void) { BarnettSmartVTMF_dlog *self; ios_t *out; BarnettSmartVTMF_dlog__PublishGroup(self, out); }
