#include "specdefs.h"
static inline void map_str_mpz__ctor_0(map_str_mpz *m) { m->present = 0; m->val = 0; m->size = 0; }
static inline void tmcg_mpz_fpowm_init(mpz_t *t) { (void)t; /* mpz_init of every entry: zero */ }
