#ifndef C02_PERM_SPECDEFS_H
#define C02_PERM_SPECDEFS_H
/* ghost state and spec macros of the permutation generators (also included by importing groups) */
size_t mod_n;              /* number of sampler calls so far              */
size_t ghost_j;            /* arbitrary, never assigned                   */
unsigned long ghost_jmod;  /* modulus of call number ghost_j              */
unsigned long ghost_jret;  /* result of call number ghost_j               */
#ifndef MAXN
#define MAXN 512 /* TMCG_MAX_CARDS */
#endif
/* universal quantifier over indices; the constant guard lets the SAT back end
 * expand it completely in the small-size finder variant (-DMAXN=5) */
#ifndef ALL
#define ALL(k, body) __CPROVER_forall { size_t k; (k < MAXN) ==> (body) }
#endif
#endif
