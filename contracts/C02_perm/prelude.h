#include "specdefs.h"
/* Call-level log of the bounded sampler, sampled at the arbitrary index ghost_j
 * (never assigned).  tmcg_mpz_srandom_mod is given a BODY here: pure ghost
 * logging followed by a call of tmcg_mpz_srandom_mod__spec, which carries the
 * contract that group C07_sampler proves for the real function (imported by
 * the driver, replaced with --replace-call-with-contract). */
unsigned long tmcg_mpz_srandom_mod(unsigned long modulo)
{
  unsigned long r = tmcg_mpz_srandom_mod__spec(modulo);
  if (mod_n == ghost_j) { ghost_jmod = modulo; ghost_jret = r; }
  __CPROVER_assume(mod_n + 1 > mod_n); /* ghost counter does not wrap */
  mod_n = mod_n + 1;
  return r;
}
