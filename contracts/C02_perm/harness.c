void h_perm(void) { size_t n; vec_ulong *pi; random_permutation_fast(n, pi); }
void h_rot(void) { size_t n; vec_ulong *pi; random_rotation(n, pi); }
