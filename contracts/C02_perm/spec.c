//@ function random_permutation_fast
//@ contract
__CPROVER_requires(1 <= n && n <= MAXN)
__CPROVER_requires(__CPROVER_is_fresh(pi, sizeof(*pi)))
__CPROVER_requires(pi->cap == MAXN && pi->size <= MAXN && __CPROVER_is_fresh(pi->data, MAXN * sizeof(size_t)))
__CPROVER_requires(__tmcg_thrown == 0)
__CPROVER_assigns(pi->size, __CPROVER_object_whole(pi->data))
__CPROVER_assigns(mod_n, ghost_jmod, ghost_jret, draw_n, ghost_val, draw_last, __tmcg_thrown)
__CPROVER_ensures(__tmcg_thrown == 0)
__CPROVER_ensures(pi->size == n)
#ifdef PART_BIJ
/* C02: the fresh secret is a bijection on {0..n-1} */
__CPROVER_ensures(ALL(k, k < n ==> pi->data[k] < n))
__CPROVER_ensures(ALL(a, a < n ==> ALL(b, b < a ==> pi->data[a] != pi->data[b])))
#endif
#ifdef PART_LOG
/* C07: exactly n-1 draws, the j-th with modulus n-j (product of the moduli is n!) */
__CPROVER_ensures(mod_n == __CPROVER_old(mod_n) + (n - 1))
__CPROVER_ensures(__CPROVER_old(mod_n) <= ghost_j && ghost_j < mod_n ==> ghost_jmod == n - (ghost_j - __CPROVER_old(mod_n)))
#endif
//@ loop 1
__CPROVER_assigns(i, pi->size, __CPROVER_object_whole(pi->data))
__CPROVER_loop_invariant(i <= n && pi->size == i)
#ifdef PART_BIJ
__CPROVER_loop_invariant(ALL(k1, k1 < i ==> pi->data[k1] == k1))
#endif
__CPROVER_decreases(n - i)
//@ loop 2
__CPROVER_assigns(i, __CPROVER_object_whole(pi->data), mod_n, ghost_jmod, ghost_jret, draw_n, ghost_val, draw_last, __tmcg_thrown)
__CPROVER_loop_invariant(i <= n - 1 && pi->size == n && __tmcg_thrown == 0)
#ifdef PART_LOG
__CPROVER_loop_invariant(mod_n == __CPROVER_loop_entry(mod_n) + i)
__CPROVER_loop_invariant(__CPROVER_loop_entry(mod_n) <= ghost_j && ghost_j < mod_n ==> ghost_jmod == n - (ghost_j - __CPROVER_loop_entry(mod_n)))
#endif
#ifdef PART_BIJ
__CPROVER_loop_invariant(ALL(k2, k2 < n ==> pi->data[k2] < n))
__CPROVER_loop_invariant(ALL(a2, a2 < n ==> ALL(b2, b2 < a2 ==> pi->data[a2] != pi->data[b2])))
#endif
__CPROVER_decreases(n - i)
//@ end

//@ function random_rotation
//@ contract
__CPROVER_requires(2 <= n && n <= MAXN)
__CPROVER_requires(__CPROVER_is_fresh(pi, sizeof(*pi)))
__CPROVER_requires(pi->cap == MAXN && pi->size <= MAXN && __CPROVER_is_fresh(pi->data, MAXN * sizeof(size_t)))
__CPROVER_requires(__tmcg_thrown == 0)
__CPROVER_assigns(pi->size, __CPROVER_object_whole(pi->data))
__CPROVER_assigns(mod_n, ghost_jmod, ghost_jret, draw_n, ghost_val, draw_last, __tmcg_thrown)
__CPROVER_ensures(__tmcg_thrown == 0)
__CPROVER_ensures(pi->size == n)
__CPROVER_ensures(__CPROVER_return_value < n)
#ifdef PART_BIJ
/* C02: a cyclic shift by exactly the reported offset */
__CPROVER_ensures(ALL(k, k < n ==> pi->data[k] == (k + n - __CPROVER_return_value) % n))
#endif
#ifdef PART_LOG
/* C07: exactly one draw, with modulus n; the offset is (n - draw) mod n, a bijection of the draw */
__CPROVER_ensures(mod_n == __CPROVER_old(mod_n) + 1)
__CPROVER_ensures(ghost_j == __CPROVER_old(mod_n) ==> ghost_jmod == n && __CPROVER_return_value == (n - ghost_jret) % n)
#endif
//@ loop 1
__CPROVER_assigns(i, pi->size, __CPROVER_object_whole(pi->data))
__CPROVER_loop_invariant(i <= n && pi->size == i && r < n)
#ifdef PART_BIJ
__CPROVER_loop_invariant(ALL(k1, k1 < i ==> pi->data[k1] == (r + k1) % n))
#endif
__CPROVER_decreases(n - i)
//@ end
