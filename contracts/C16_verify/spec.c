//@ function CanettiGennaroJareckiKrawczykRabinDSS__Verify
//@ contract
__CPROVER_requires(SIG_INV(self) && MPZ_OK(m) && MPZ_OK(r) && MPZ_OK(s) && __tmcg_thrown == 0)
__CPROVER_assigns(__tmcg_thrown)
__CPROVER_ensures(__tmcg_thrown == 0)
/* C16: the DSA verifier accepts exactly the triples the standard equation and range conditions accept:
 * 0 < r < q, 0 < s < q, w = s^-1 mod q exists, ((g^(m w mod q) * y^(r w mod q)) mod p) mod q = r */
__CPROVER_ensures(__CPROVER_return_value ==
   (0 < V(r) && V(r) < Q && 0 < V(s) && V(s) < Q && INVERTIBLE(V(s), Q) &&
    MOD(MULMOD(POWM(G, MULMOD(V(m), INV(V(s), Q), Q), P), POWM(Y, MULMOD(V(r), INV(V(s), Q), Q), P), P), Q) == V(r)))
//@ end

//@ function GennaroJareckiKrawczykRabinNTS__Verify
//@ contract
__CPROVER_requires(SIG_INV(self) && MPZ_OK(m) && MPZ_OK(c) && MPZ_OK(s) && __tmcg_thrown == 0 && WORD_OK(V(s)))
__CPROVER_assigns(__tmcg_thrown)
/* C16: the Schnorr verifier accepts exactly the triples the standard equation and range conditions
 * accept: 0 <= s < q (a response outside the range is refused, not silently reduced),
 * y^c invertible, c = H(m, g^s * (y^c)^-1 mod p) */
__CPROVER_ensures(__CPROVER_return_value ==
   (__tmcg_thrown == 0 && 0 <= V(s) && V(s) < Q && INVERTIBLE(POWM(Y, V(c), P), P) &&
    V(c) == UF(hash2)(V(m), MULMOD(POWM(G, V(s), P), INV(POWM(Y, V(c), P), P), P))))
//@ end
