void h_dss(void) { CanettiGennaroJareckiKrawczykRabinDSS *self; mpz_srcptr m, r, s; CanettiGennaroJareckiKrawczykRabinDSS__Verify(self, m, r, s); }
void h_nts(void) { GennaroJareckiKrawczykRabinNTS *self; mpz_srcptr m, c, s; GennaroJareckiKrawczykRabinNTS__Verify(self, m, c, s); }
