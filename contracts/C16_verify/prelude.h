#include "specdefs.h"
