#ifndef C16_SPECDEFS_H
#define C16_SPECDEFS_H
#define P V(self->p)
#define Q V(self->q)
#define G V(self->g)
#define Y V(self->y)
#define MULMOD(a, b, m) MOD(MUL((a), (b)), (m))
#define INVERTIBLE(a, m) UF(invertible)((a), (m))
#define INV(a, m) UF(invert)((a), (m))
/* class invariant of an initialised signer object (CheckGroup passed, tables precomputed) */
#define SIG_INV(self) (__CPROVER_is_fresh((self), sizeof(*(self))) && \
   __CPROVER_is_fresh((self)->fpowm_table_g, TMCG_MAX_FPOWM_T * sizeof(mpz_t)) && \
   V((self)->fpowm_table_g[0]) == G && P > 1 && Q > 1 && UF(bits)(Q) <= (unsigned long)TMCG_MAX_FPOWM_T && WORD_OK(Q))
#endif
