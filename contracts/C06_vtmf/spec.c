//@ function BarnettSmartVTMF_dlog__CheckElement
//@ contract
__CPROVER_requires(__CPROVER_is_fresh(self, sizeof(*self)) && __CPROVER_is_fresh(a, sizeof(*a)))
__CPROVER_assigns()
/* C06: element checks accept exactly the members of the order-q subgroup in the range 1..p-1 */
__CPROVER_ensures(__CPROVER_return_value == (0 < V(a) && V(a) < P && POWM(V(a), Q, P) == 1))
//@ end

//@ function BarnettSmartVTMF_dlog__CheckGroup
//@ contract
__CPROVER_requires(__CPROVER_is_fresh(self, sizeof(*self)))
__CPROVER_requires(WORD_OK(P) && WORD_OK(MUL(Q, K)))
__CPROVER_requires(gP == P && gQ == Q && gK == K && seed_acc == GGEN_SEED)
__CPROVER_requires(hash_n == hash_base && deriv_ok)
__CPROVER_assigns(MONITOR_STATE)
/* C06: accepted exactly when sizes, form p = qk+1, primality, coprimality and the generator test hold ... */
__CPROVER_ensures(__CPROVER_return_value ==
   (BITS(P) >= self->F_size && BITS(Q) >= self->G_size && MUL(Q, K) + 1 == P && ISPRIME(P) && ISPRIME(Q)
    && GCD(Q, K) == 1 && 1 < G && G < P - 1 && POWM(G, Q, P) == 1
    /* ... and, when the generator must be derived verifiably, g is the derived one */
    && (!self->canonical_g || G == POWM(hash_last_out, K, P))))
/* the derivation that produced hash_last_out is the prescribed one (monitor in prelude.h) and its
 * last candidate is the first that passes the generator test */
/* (stated for every run that reaches the derivation, accepted or not: a group whose g is the
 * derived generator is therefore accepted, and a refusal at this stage means g differs from it) */
__CPROVER_ensures(self->canonical_g && BITS(P) >= self->F_size && BITS(Q) >= self->G_size && MUL(Q, K) + 1 == P
    && ISPRIME(P) && ISPRIME(Q) && GCD(Q, K) == 1 && 1 < G && G < P - 1 && POWM(G, Q, P) == 1
    ==> hash_n > hash_base && deriv_ok && last_cand_passes)
/* not canonical: no hash is computed */
__CPROVER_ensures(!self->canonical_g ==> hash_n == hash_base)
//@ loop 1
__CPROVER_assigns(MONITOR_STATE, V(foo), V(g2), U.acc, U.nput, U.okv, U.okev)
__CPROVER_loop_invariant(hash_n >= hash_base && V(bar) == gP - 1 && deriv_ok)
__CPROVER_loop_invariant(hash_n == hash_base ==> U.acc == seed_acc)
__CPROVER_loop_invariant(hash_n > hash_base ==> U.acc == expect_next && !last_cand_passes)
//@ end
