#ifndef C06_VTMF_SPECDEFS_H
#define C06_VTMF_SPECDEFS_H
/* abstract values of the group parameters of the implicit object */
#define P V(self->p)
#define Q V(self->q)
#define G V(self->g)
#define K V(self->k)
#define BITS(x) UF(bits)(x)
#define ISPRIME(x) (UF(prime)(x) != 0)
#define GCD(a, b) UF(gcd)((a), (b))
/* "x is a non-trivial element of order q": 1 < x < p-1 and x^q = 1 (mod p); the derivation
 * loop tests the equivalent x != 0, 1, p-1 on values that are already reduced mod p */
#define GEN_TEST(x) ((x) != 0 && (x) != 1 && (x) != P - 1 && POWM((x), Q, P) == 1)
#define LIT_LibTMCG 0xdeeb6045UL /* crc32 of the literal "LibTMCG|" (computed by the extractor) */
#define LIT_bar     0x92623c82UL /* "|"      */
#define LIT_ggen    0xd30102a7UL /* "|ggen|" */
#define ACC_MPZ(a, v) UF(acc_mpz)((a), (v))
#define ACC_LIT(a, id) UF(acc_lit)((a), (id))
/* the seed string of the verifiable generator derivation: "LibTMCG|" p "|" q "|ggen|" */
#define GGEN_SEED ACC_LIT(ACC_MPZ(ACC_LIT(ACC_MPZ(ACC_LIT(0, LIT_LibTMCG), P), LIT_bar), Q), LIT_ggen)
#endif
