void h_CheckElement(void) { BarnettSmartVTMF_dlog *self; mpz_srcptr a; BarnettSmartVTMF_dlog__CheckElement(self, a); }
void h_CheckGroup(void) { BarnettSmartVTMF_dlog *self; BarnettSmartVTMF_dlog__CheckGroup(self); }
