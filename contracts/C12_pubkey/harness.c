void h_verify(void) { TMCG_PublicKey *self; str_t *data; str_t s; s.data = 0; s.size = 0; s.cap = 0; s.absid = 0;
  _Bool r = TMCG_PublicKey__verify(self, data, s);
  __CPROVER_assert(!r, "REACHABILITY-CANARY (must fail): an accepting run of verify exists"); }
void h_decrypt(void) { TMCG_SecretKey *self; unsigned char *value; str_t s; s.data = 0; s.size = 0; s.cap = 0; s.absid = 0;
  _Bool r = TMCG_SecretKey__decrypt(self, value, s);
  __CPROVER_assert(!r, "REACHABILITY-CANARY (must fail): a successful decryption exists"); }
void h_check(void) { TMCG_PublicKey *self; _Bool r = TMCG_PublicKey__check(self);
  __CPROVER_assert(!r, "REACHABILITY-CANARY (must fail): an accepted key exists");
  __CPROVER_assert(!(r && ghost_find_ret != (size_t)-1), "REACHABILITY-CANARY (must fail): an accepted NIZK key exists"); }
