void h_verify(void) { TMCG_PublicKey *self; str_t *data; str_t s; s.data = 0; s.size = 0; s.cap = 0; s.absid = 0; TMCG_PublicKey__verify(self, data, s); }
