#include "parse_stub.h"
/* buffer-level stubs: what matters for C12 is that every access stays inside its object; contents are arbitrary.
 * (CBMC's own memcpy model copies byte by byte and runs out of memory on symbolic lengths.) */
static inline void *verif_memcpy(void *d, const void *s, size_t n)
{ __CPROVER_assert(n == 0 || __CPROVER_r_ok(s, n), "memcpy: source holds n octets"); __CPROVER_assert(n == 0 || __CPROVER_w_ok(d, n), "memcpy: destination holds n octets");
  if (n > 0) __CPROVER_havoc_object(d); return d; }
static inline int verif_memcmp(const void *a, const void *b, size_t n)
{ __CPROVER_assert(n == 0 || __CPROVER_r_ok(a, n), "memcmp: first buffer holds n octets"); __CPROVER_assert(n == 0 || __CPROVER_r_ok(b, n), "memcmp: second buffer holds n octets"); return (int)nondet_ulong(); }
#define memcpy verif_memcpy
#define memcmp verif_memcmp
enum { GCRY_MD_SHA256 = 8, TMCG_GCRY_MD_ALGO = 8 };
/* libgcrypt digest length: between 1 and 64 octets for every algorithm */
unsigned int ghost_dlen;   /* the digest length of this run (arbitrary in 1..64, the same for every call) */
static inline unsigned int gcry_md_get_algo_dlen(int algo) { (void)algo; __CPROVER_assume(1 <= ghost_dlen && ghost_dlen <= 64); return ghost_dlen; }
/* expandable hash g() and hash h() of mpz_shash.cc: write exactly osize (resp. digest length) octets, read isize */
static inline void tmcg_g(unsigned char *output, size_t osize, const unsigned char *input, size_t isize)
{ __CPROVER_assert(osize == 0 || __CPROVER_w_ok(output, osize), "tmcg_g: output buffer holds osize octets"); __CPROVER_assert(isize == 0 || __CPROVER_r_ok(input, isize), "tmcg_g: input buffer holds isize octets"); if (osize > 0) __CPROVER_havoc_object(output); }
static inline void tmcg_h(unsigned char *output, const unsigned char *input, size_t size, int algo)
{ (void)algo; __CPROVER_assert(__CPROVER_w_ok(output, ghost_dlen), "tmcg_h: output buffer holds one digest"); __CPROVER_assert(size == 0 || __CPROVER_r_ok(input, size), "tmcg_h: input buffer holds size octets"); __CPROVER_havoc_object(output); }
/* mpz_export (GMP manual): writes count words of `size` octets, count = ceil(bits(op) / (8*size)) for op != 0.
 * The destination must hold count*size octets -- ASSERTED here. */
static inline void *mpz_export(void *rop, size_t *countp, int order, size_t size, int endian, size_t nails, mpz_srcptr op)
{
  (void)order; (void)endian; __CPROVER_assert(nails == 0 && size > 0, "model limit: mpz_export without nails");
  unsigned long bits = UF(bits)(op->v);
  __CPROVER_assume(bits >= 1 && bits < ((unsigned long)1 << 40));
  size_t words = op->v == 0 ? 0 : (bits + 8 * size - 1) / (8 * size);
  __CPROVER_assert(words == 0 || __CPROVER_w_ok(rop, words * size), "mpz_export: destination holds count*size octets (GMP writes that many)");
  if (words > 0) __CPROVER_havoc_object(rop);
  if (countp) *countp = words;
  return rop;
}
static inline int mpz_set_str(mpz_ptr r, const char *s, int base) { (void)s; (void)base; r->v = (long)nondet_ulong(); return nondet_bool() ? 0 : -1; }
/* key identifier helpers of TMCG_PublicKey (string functions, not under contract here): arbitrary results */
static inline size_t TMCG_PublicKey__keyid_size(TMCG_PublicKey *self, str_t *s) { (void)self; (void)s; return nondet_ulong(); }
static inline str_t TMCG_PublicKey__keyid(TMCG_PublicKey *self, size_t n) { (void)self; (void)n; str_t r; r.data = 0; r.size = 0; r.cap = 0; r.absid = (long)nondet_ulong(); return r; }
static inline _Bool str_t__op_ne_str(str_t *a, str_t *b) { (void)a; (void)b; return nondet_bool(); }
#define STRMAX 64
