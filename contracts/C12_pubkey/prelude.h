#include "parse_stub.h"
/* buffer-level stubs: what matters for C12 is that every access stays inside its object; contents are arbitrary.
 * (CBMC's own memcpy model copies byte by byte and runs out of memory on symbolic lengths.) */
/* ghost monitor (C10): which buffers flow where.  Contents are not modelled; provenance is, as (object, offset)
 * pairs taken at the time of the call (the buffers are freed before the function returns). */
#define LOGN 8
typedef struct { size_t obj; long off; } loc_t;
#define LOC(p) ((loc_t){ __CPROVER_POINTER_OBJECT(p), __CPROVER_POINTER_OFFSET(p) })
#define AT(l, o, k) ((l).obj == (o).obj && (l).off == (o).off + (long)(k))
size_t g_ncpy, g_ncmp; loc_t g_cpy_d[LOGN], g_cpy_s[LOGN]; size_t g_cpy_n[LOGN];
loc_t g_cmp_a[LOGN], g_cmp_b[LOGN]; size_t g_cmp_n[LOGN]; int g_cmp_r[LOGN];
loc_t g_exp_buf, g_g_out, g_g_in, g_h_out, g_h_in; size_t g_exp_word, g_g_osize, g_g_isize, g_h_size;
size_t g_exp_written;   /* octets written by the most recent mpz_export (count * size; 0 for the value 0) */
loc_t g_last_cpy_d, g_last_cpy_s, g_last_cmp_a, g_last_cmp_b, g_set_p; size_t g_last_cpy_n, g_last_cmp_n, g_set_n; int g_last_cmp_r, g_set_c;
static inline void *verif_memset(void *d, int c, size_t n)
{ __CPROVER_assert(n == 0 || __CPROVER_w_ok(d, n), "memset: destination holds n octets"); g_set_p = LOC(d); g_set_n = n; g_set_c = c; if (n > 0) __CPROVER_havoc_object(d); return d; }
#define memset verif_memset
static inline void *verif_memcpy(void *d, const void *s, size_t n)
{ __CPROVER_assert(n == 0 || __CPROVER_r_ok(s, n), "memcpy: source holds n octets"); __CPROVER_assert(n == 0 || __CPROVER_w_ok(d, n), "memcpy: destination holds n octets");
  /* the export buffer is a fresh `new unsigned char[]` (uninitialised): reading beyond what mpz_export wrote reads
   * whatever an earlier call left on the heap */
  __CPROVER_assert(n == 0 || __CPROVER_POINTER_OBJECT(s) != g_exp_buf.obj || (size_t)__CPROVER_POINTER_OFFSET(s) + n <= g_exp_written
                   || (ghost_zeroed_n <= 4 && ((ghost_zeroed_n > 0 && ghost_zeroed_obj[0] == g_exp_buf.obj) || (ghost_zeroed_n > 1 && ghost_zeroed_obj[1] == g_exp_buf.obj)
                       || (ghost_zeroed_n > 2 && ghost_zeroed_obj[2] == g_exp_buf.obj) || (ghost_zeroed_n > 3 && ghost_zeroed_obj[3] == g_exp_buf.obj))),
                   "memcpy from the mpz_export buffer reads only octets that mpz_export wrote (the rest is uninitialised heap)");
  g_last_cpy_d = LOC(d); g_last_cpy_s = LOC(s); g_last_cpy_n = n;
  if (g_ncpy < LOGN) { g_cpy_d[g_ncpy] = LOC(d); g_cpy_s[g_ncpy] = LOC(s); g_cpy_n[g_ncpy] = n; } g_ncpy++;
  if (n > 0) __CPROVER_havoc_object(d); return d; }
static inline int verif_memcmp(const void *a, const void *b, size_t n)
{ __CPROVER_assert(n == 0 || __CPROVER_r_ok(a, n), "memcmp: first buffer holds n octets"); __CPROVER_assert(n == 0 || __CPROVER_r_ok(b, n), "memcmp: second buffer holds n octets");
  int r = (int)nondet_ulong(); g_last_cmp_a = LOC(a); g_last_cmp_b = LOC(b); g_last_cmp_n = n; g_last_cmp_r = r;
  if (g_ncmp < LOGN) { g_cmp_a[g_ncmp] = LOC(a); g_cmp_b[g_ncmp] = LOC(b); g_cmp_n[g_ncmp] = n; g_cmp_r[g_ncmp] = r; } g_ncmp++; return r; }
#define memcpy verif_memcpy
#define memcmp verif_memcmp
enum { GCRY_MD_SHA256 = 8, TMCG_GCRY_MD_ALGO = 8 };
/* libgcrypt digest length: between 1 and 64 octets for every algorithm */
unsigned int ghost_dlen;   /* the digest length of this run (arbitrary in 1..64, the same for every call) */
static inline unsigned int gcry_md_get_algo_dlen(int algo) { (void)algo; __CPROVER_assume(1 <= ghost_dlen && ghost_dlen <= 64); return ghost_dlen; }
/* expandable hash g() and hash h() of mpz_shash.cc: write exactly osize (resp. digest length) octets, read isize */
static inline void tmcg_g(unsigned char *output, size_t osize, const unsigned char *input, size_t isize)
{ __CPROVER_assert(osize == 0 || __CPROVER_w_ok(output, osize), "tmcg_g: output buffer holds osize octets"); __CPROVER_assert(isize == 0 || __CPROVER_r_ok(input, isize), "tmcg_g: input buffer holds isize octets"); g_g_out = LOC(output); g_g_osize = osize; g_g_in = LOC(input); g_g_isize = isize; if (osize > 0) __CPROVER_havoc_object(output); }
static inline void tmcg_h(unsigned char *output, const unsigned char *input, size_t size, int algo)
{ (void)algo; __CPROVER_assert(__CPROVER_w_ok(output, ghost_dlen), "tmcg_h: output buffer holds one digest"); __CPROVER_assert(size == 0 || __CPROVER_r_ok(input, size), "tmcg_h: input buffer holds size octets"); g_h_out = LOC(output); g_h_in = LOC(input); g_h_size = size; __CPROVER_havoc_object(output); }
/* mpz_export (GMP manual): writes count words of `size` octets, count = ceil(bits(op) / (8*size)) for op != 0.
 * The destination must hold count*size octets -- ASSERTED here. */
static inline void *mpz_export(void *rop, size_t *countp, int order, size_t size, int endian, size_t nails, mpz_srcptr op)
{
  (void)order; (void)endian; __CPROVER_assert(nails == 0 && size > 0, "model limit: mpz_export without nails");
  unsigned long bits = UF(bits)(op->v);
  __CPROVER_assume(bits >= 1 && bits < ((unsigned long)1 << 40));
  size_t words = op->v == 0 ? 0 : (bits + 8 * size - 1) / (8 * size);
  __CPROVER_assert(words == 0 || __CPROVER_w_ok(rop, words * size), "mpz_export: destination holds count*size octets (GMP writes that many)");
  g_exp_buf = LOC(rop); g_exp_word = size; g_exp_written = words * size;
  if (words > 0) __CPROVER_havoc_object(rop);
  if (countp) *countp = words;
  return rop;
}
static inline int mpz_set_str(mpz_ptr r, const char *s, int base) { (void)s; (void)base; r->v = (long)nondet_ulong(); return nondet_bool() ? 0 : -1; }
/* key identifier helpers of TMCG_PublicKey (string functions, not under contract here): arbitrary results */
static inline size_t TMCG_PublicKey__keyid_size(TMCG_PublicKey *self, str_t *s) { (void)self; (void)s; return nondet_ulong(); }
static inline str_t TMCG_PublicKey__keyid(TMCG_PublicKey *self, size_t n) { (void)self; (void)n; str_t r; r.data = 0; r.size = 0; r.cap = 0; r.absid = (long)nondet_ulong(); return r; }
static inline _Bool str_t__op_ne_str(str_t *a, str_t *b) { (void)a; (void)b; return nondet_bool(); }
#define STRMAX 64
#define PRAB_MONITOR g_last_cpy_d, g_last_cpy_s, g_last_cmp_a, g_last_cmp_b, g_set_p, g_last_cpy_n, g_last_cmp_n, g_set_n, g_last_cmp_r, g_set_c, g_ncpy, g_ncmp, __CPROVER_object_whole(g_cpy_d), __CPROVER_object_whole(g_cpy_s), __CPROVER_object_whole(g_cpy_n), \
  __CPROVER_object_whole(g_cmp_a), __CPROVER_object_whole(g_cmp_b), __CPROVER_object_whole(g_cmp_n), __CPROVER_object_whole(g_cmp_r), \
  g_exp_buf, g_exp_written, g_g_out, g_g_in, g_h_out, g_h_in, g_exp_word, g_g_osize, g_g_isize, g_h_size
#define ZEROED_STATE ghost_zeroed_n, __CPROVER_object_whole(ghost_zeroed_obj)
#define MNSIZE(self) ((size_t)(UF(bits)(V((self)->m)) / 8))
static inline size_t TMCG_SecretKey__keyid_size(TMCG_SecretKey *self, str_t *s) { (void)self; (void)s; return nondet_ulong(); }
static inline str_t TMCG_SecretKey__keyid(TMCG_SecretKey *self, size_t n) { (void)self; (void)n; str_t r; r.data = 0; r.size = 0; r.cap = 0; r.absid = (long)nondet_ulong(); return r; }
/* number theory of the secret-key holder: arbitrary results (decided elsewhere, C09) */
static inline _Bool tmcg_mpz_qrmn_p(mpz_srcptr a, mpz_srcptr p, mpz_srcptr q) { (void)a; (void)p; (void)q; return nondet_bool(); }
static inline void tmcg_mpz_sqrtmn_fast_all(mpz_ptr r0, mpz_ptr r1, mpz_ptr r2, mpz_ptr r3, mpz_srcptr a, mpz_srcptr p, mpz_srcptr q, mpz_srcptr m,
  mpz_srcptr up, mpz_srcptr vq, mpz_srcptr pa, mpz_srcptr qa)
{ (void)a; (void)p; (void)q; (void)m; (void)up; (void)vq; (void)pa; (void)qa; r0->v = (long)nondet_ulong(); r1->v = (long)nondet_ulong(); r2->v = (long)nondet_ulong(); r3->v = (long)nondet_ulong(); }
/* std::string::find on the key type string: any outcome */
extern size_t ghost_find_ret;
static inline size_t str_t__find(str_t *s, const char *what, size_t pos) { (void)s; (void)what; (void)pos; return ghost_find_ret; }   /* one arbitrary outcome per run */

/* ---- TMCG_PublicKey::check ---- */
/* mpz_import (GMP manual): reads count words of `size` octets */
static inline void mpz_import(mpz_ptr rop, size_t count, int order, size_t size, int endian, size_t nails, const void *op)
{ (void)order; (void)endian; __CPROVER_assert(nails == 0, "model limit: mpz_import without nails");
  __CPROVER_assert(count * size == 0 || __CPROVER_r_ok(op, count * size), "mpz_import: source holds count*size octets");
  long x = (long)nondet_ulong(); __CPROVER_assume(x >= 0); rop->v = x; }
/* the self-signature check inside check(): recorded, verdict arbitrary (its meaning: contract of verify) */
size_t ghost_vfy_calls; _Bool ghost_vfy_ret; size_t ghost_find_ret;
static inline _Bool PublicKey_verify_called(TMCG_PublicKey *self, str_t *data, str_t s)
{ (void)self; (void)data; (void)s; __CPROVER_assume(ghost_vfy_calls + 1 > ghost_vfy_calls); ghost_vfy_calls++; return ghost_vfy_ret; }
#undef str_t__find
#define CHECK_MONITOR ghost_vfy_calls
