//@ function TMCG_PublicKey__verify
//@ contract
__CPROVER_requires(__CPROVER_is_fresh(self, sizeof(*self)) && __CPROVER_is_fresh(data, sizeof(*data)))
__CPROVER_requires(data->size <= STRMAX && __CPROVER_is_fresh(data->data, STRMAX + 1))
/* the modulus of an IMPORTED key is arbitrary (any size, also zero or negative) */
__CPROVER_requires(UF(bits)(V(self->m)) < ((unsigned long)1 << 32) && g_exp_buf.obj == 0 && g_exp_written == 0 && ghost_zeroed_n == 0)
__CPROVER_requires(g_ncpy == 0 && g_ncmp == 0)
__CPROVER_assigns(PARSE_ASSIGNS, PRAB_MONITOR, ZEROED_STATE)
/* C12: for every key and every signature text the check ends with a verdict -- the obligations are the
 * memory-safety checks and the asserted preconditions of the dependencies (mpz_mod modulus, mpz_export and
 * memcpy buffer sizes) inside the body */
__CPROVER_ensures(__CPROVER_return_value == 0 || __CPROVER_return_value == 1)
/* C10 (structure of PRab verification; buffer provenance recorded by the stubs): a signature is accepted only if
 *  - both comparisons were made and both found equality, each over the full length: the digest w (first
 *    digest-length octets of the exported value s^2 mod m) against h(...), and gamma (the octets after w and the
 *    K0 salt octets, up to |m|/8) against the tail of the expanded hash g(w);
 *  - h ran on exactly data || r: all data.length() octets of the data argument followed by the K0 salt octets
 *    taken from the exported value behind w;
 *  - g expanded exactly w to |m|/8 - digest length octets. */
__CPROVER_ensures(__CPROVER_return_value ==> (g_ncmp == 2 && g_cmp_r[0] == 0 && g_cmp_r[1] == 0))
__CPROVER_ensures(__CPROVER_return_value ==> (g_exp_word == MNSIZE(self) && g_ncpy == 5 &&
   AT(g_cpy_s[0], g_exp_buf, 0) && g_cpy_n[0] == ghost_dlen &&
   AT(g_cpy_s[1], g_exp_buf, ghost_dlen) && g_cpy_n[1] == TMCG_PRAB_K0 &&
   AT(g_cpy_s[2], g_exp_buf, ghost_dlen + TMCG_PRAB_K0) && g_cpy_n[2] == MNSIZE(self) - ghost_dlen - TMCG_PRAB_K0))
__CPROVER_ensures(__CPROVER_return_value ==> (AT(g_cmp_a[0], g_cpy_d[0], 0) && AT(g_cmp_b[0], g_h_out, 0) && g_cmp_n[0] == ghost_dlen))
__CPROVER_ensures(__CPROVER_return_value ==> (AT(g_h_in, g_cpy_d[3], 0) && g_cpy_s[3].obj == __CPROVER_POINTER_OBJECT(data->data) && g_cpy_s[3].off == 0 && g_cpy_n[3] == data->size &&
   AT(g_cpy_d[4], g_h_in, data->size) && AT(g_cpy_s[4], g_cpy_d[1], 0) && g_cpy_n[4] == TMCG_PRAB_K0 && g_h_size == data->size + TMCG_PRAB_K0))
__CPROVER_ensures(__CPROVER_return_value ==> (AT(g_g_in, g_cpy_d[0], 0) && g_g_isize == ghost_dlen && g_g_osize == MNSIZE(self) - ghost_dlen))
__CPROVER_ensures(__CPROVER_return_value ==> (AT(g_cmp_a[1], g_cpy_d[2], 0) && AT(g_cmp_b[1], g_g_out, TMCG_PRAB_K0) && g_cmp_n[1] == MNSIZE(self) - ghost_dlen - TMCG_PRAB_K0))
//@ loop 1
__CPROVER_assigns(i, __CPROVER_object_whole(r))
__CPROVER_loop_invariant(i <= 20)
__CPROVER_decreases(20 - i)
//@ end

//@ function TMCG_SecretKey__decrypt
//@ contract
__CPROVER_requires(__CPROVER_is_fresh(self, sizeof(*self)) && __CPROVER_is_fresh(value, TMCG_SAEP_S0))
__CPROVER_requires(UF(bits)(V(self->m)) < ((unsigned long)1 << 32) && g_exp_buf.obj == 0 && g_exp_written == 0 && ghost_zeroed_n == 0)
__CPROVER_assigns(PARSE_ASSIGNS, PRAB_MONITOR, ZEROED_STATE, __CPROVER_object_whole(value))
/* C12: memory safe for every ciphertext text and every key size (obligations inside the body) */
__CPROVER_ensures(__CPROVER_return_value == 0 || __CPROVER_return_value == 1)
/* C10 (structure of SAEP decryption): a plaintext is delivered only if the redundancy check was made and passed --
 * the last comparison covered the S0 octets behind the message part of the unmasked block against S0 zero octets --
 * and the S0 delivered octets are the message part of that same block */
__CPROVER_ensures(__CPROVER_return_value ==> (g_last_cmp_r == 0 && g_last_cmp_n == TMCG_SAEP_S0 && g_last_cmp_a.off == TMCG_SAEP_S0 &&
   AT(g_last_cmp_b, g_set_p, 0) && g_set_c == 0 && g_set_n == TMCG_SAEP_S0))
__CPROVER_ensures(__CPROVER_return_value ==> (g_last_cpy_d.obj == __CPROVER_POINTER_OBJECT(value) && g_last_cpy_d.off == 0 && g_last_cpy_n == TMCG_SAEP_S0 &&
   g_last_cpy_s.obj == g_last_cmp_a.obj && g_last_cpy_s.off == 0))
/* the unmasking used g(r) with r the octets behind the masked block and the full lengths */
__CPROVER_ensures(__CPROVER_return_value ==> (g_g_isize == MNSIZE(self) - 2 * TMCG_SAEP_S0 && g_g_osize == 2 * TMCG_SAEP_S0 && g_exp_word == MNSIZE(self)))
//@ loop 1
__CPROVER_assigns(k, PRAB_MONITOR, __CPROVER_object_whole(value), __CPROVER_object_whole(yy), __CPROVER_object_whole(r), __CPROVER_object_whole(Mt), __CPROVER_object_whole(g12), return_value)
__CPROVER_loop_invariant(k <= 4)
__CPROVER_decreases(4 - k)
//@ loop 2
__CPROVER_assigns(i, __CPROVER_object_whole(Mt))
__CPROVER_loop_invariant(i <= rabin_s2)
__CPROVER_decreases(rabin_s2 - i)
//@ end

//@ function TMCG_PublicKey__check
//@ contract
__CPROVER_requires(__CPROVER_is_fresh(self, sizeof(*self)))
__CPROVER_requires(UF(bits)(V(self->m)) < ((unsigned long)1 << 32) && g_exp_buf.obj == 0 && g_exp_written == 0 && ghost_zeroed_n == 0)
__CPROVER_requires(ghost_vfy_calls == 0 && strtoul_calls == 0)
__CPROVER_assigns(PARSE_ASSIGNS, CHECK_MONITOR, ev_n, g_g_out, g_g_osize, g_g_in, g_g_isize)
/* C12: memory safe, no division by a zero modulus, for every key (obligations in the body).
 * C10 (key validation): a key is accepted only if y has Jacobi symbol 1, m is odd and not prime, and its
 * self-signature verified (exactly one verification, verdict true) ... */
__CPROVER_ensures(__CPROVER_return_value ==> (UF(jacobi)(V(self->y), V(self->m)) == 1 && UF(tstbit)(V(self->m), 0) && !UF(prime)(V(self->m))))
__CPROVER_ensures(__CPROVER_return_value ==> (ghost_vfy_calls == 1 && ghost_vfy_ret))
/* ... and, for a NIZK key, only if each of the three proof stages announces at least the required number of rounds */
__CPROVER_ensures((__CPROVER_return_value && ghost_find_ret != (size_t)-1) ==>
   (strtoul_calls == 3 && strtoul_ret[0] >= TMCG_KEY_NIZK_STAGE1 && strtoul_ret[1] >= TMCG_KEY_NIZK_STAGE2 && strtoul_ret[2] >= TMCG_KEY_NIZK_STAGE3))
/* a non-NIZK key is accepted without reading a proof */
__CPROVER_ensures((__CPROVER_return_value && ghost_find_ret == (size_t)-1) ==> strtoul_calls == 0)
//@ loop 1
__CPROVER_assigns(i, V(foo), V(bar), input.acc, input.nput, input.okv, input.okev, ev_n, g_g_out, g_g_osize, g_g_in, g_g_isize, __CPROVER_object_whole(mn))
__CPROVER_loop_invariant(i <= stage1_size)
__CPROVER_decreases(stage1_size - i)
//@ loop 2
__CPROVER_assigns(V(foo), V(bar), input.acc, input.nput, input.okv, input.okev, ev_n, g_g_out, g_g_osize, g_g_in, g_g_isize, __CPROVER_object_whole(mn))
__CPROVER_loop_invariant(1)
//@ loop 3
__CPROVER_assigns(i, V(foo), V(bar), input.acc, input.nput, input.okv, input.okev, ev_n, g_g_out, g_g_osize, g_g_in, g_g_isize, __CPROVER_object_whole(mn))
__CPROVER_loop_invariant(i <= stage2_size)
__CPROVER_decreases(stage2_size - i)
//@ loop 4
__CPROVER_assigns(V(foo), V(bar), input.acc, input.nput, input.okv, input.okev, ev_n, g_g_out, g_g_osize, g_g_in, g_g_isize, __CPROVER_object_whole(mn))
__CPROVER_loop_invariant(1)
//@ loop 5
__CPROVER_assigns(i, V(foo), V(bar), input.acc, input.nput, input.okv, input.okev, ev_n, g_g_out, g_g_osize, g_g_in, g_g_isize, __CPROVER_object_whole(mn))
__CPROVER_loop_invariant(i <= stage3_size)
__CPROVER_decreases(stage3_size - i)
//@ loop 6
__CPROVER_assigns(V(foo), V(bar), input.acc, input.nput, input.okv, input.okev, ev_n, g_g_out, g_g_osize, g_g_in, g_g_isize, __CPROVER_object_whole(mn))
__CPROVER_loop_invariant(1)
//@ end
