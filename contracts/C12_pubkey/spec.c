//@ function TMCG_PublicKey__verify
//@ contract
__CPROVER_requires(__CPROVER_is_fresh(self, sizeof(*self)) && __CPROVER_is_fresh(data, sizeof(*data)))
__CPROVER_requires(data->size <= STRMAX && __CPROVER_is_fresh(data->data, STRMAX + 1))
/* the modulus of an IMPORTED key is arbitrary (any size, also zero or negative) */
__CPROVER_requires(UF(bits)(V(self->m)) < ((unsigned long)1 << 32))
__CPROVER_assigns(PARSE_ASSIGNS)
/* C12: for every key and every signature text the check ends with a verdict -- the obligations are the
 * memory-safety checks and the asserted preconditions of the dependencies (mpz_mod modulus, mpz_export and
 * memcpy buffer sizes) inside the body */
__CPROVER_ensures(__CPROVER_return_value == 0 || __CPROVER_return_value == 1)
//@ loop 1
__CPROVER_assigns(i, __CPROVER_object_whole(r))
__CPROVER_loop_invariant(i <= 20)
__CPROVER_decreases(20 - i)
//@ end
