/* spec-level definitions used by the contracts of this group (also included by importers) */
#ifndef C07_SAMPLER_SPECDEFS_H
#define C07_SAMPLER_SPECDEFS_H
/* rho = 2^64 mod m, written without leaving 64 bits */
#define RHO(m) (((ULONG_MAX % (m)) + 1UL) % (m))
#endif
