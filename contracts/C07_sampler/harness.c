void h_nomodbias(void)
{
  enum gcry_random_level level; unsigned long modulo;
  tmcg_mpz_grandom_ui_nomodbias(level, modulo);
}
void h_srandom_mod(void)
{
  unsigned long modulo;
  tmcg_mpz_srandom_mod(modulo);
}
