//@ function tmcg_mpz_grandom_ui_nomodbias
//@ contract
__CPROVER_requires(__tmcg_thrown == 0)
__CPROVER_assigns(draw_n, ghost_val, draw_last, __tmcg_thrown)
/* refusal: exactly the moduli 0 and 1 */
__CPROVER_ensures(__tmcg_thrown == (modulo < 2 ? TMCG_EXC_invalid_argument : TMCG_EXC_none))
__CPROVER_ensures(modulo < 2 ==> draw_n == __CPROVER_old(draw_n))
/* the result is a drawn word, returned unmodified */
__CPROVER_ensures(modulo >= 2 ==> draw_n > __CPROVER_old(draw_n) && __CPROVER_return_value == draw_last)
/* (a) the accepted word lies in a complete block of length modulo: ret < K*modulo, K = floor(2^64/modulo) */
__CPROVER_ensures(modulo >= 2 ==> ULONG_MAX - __CPROVER_return_value >= RHO(modulo))
/* (b) no rejected word (any earlier draw, ghost_k arbitrary) shares a block with the accepted one:
 *     together with (a), over all runs, the accepted set is a union of complete blocks,
 *     hence every residue has the same number of pre-images */
__CPROVER_ensures(modulo >= 2 && __CPROVER_old(draw_n) <= ghost_k && ghost_k < draw_n - 1 ==>
                  ghost_val / modulo != __CPROVER_return_value / modulo)
//@ loop 1
__CPROVER_assigns(rnd, draw_n, ghost_val, draw_last)
__CPROVER_loop_invariant(draw_n >= __CPROVER_loop_entry(draw_n))
__CPROVER_loop_invariant(__CPROVER_loop_entry(draw_n) <= ghost_k && ghost_k < draw_n ==> ghost_val > max)
__CPROVER_loop_invariant(draw_n > __CPROVER_loop_entry(draw_n) ==> draw_last > max)
//@ end

//@ function tmcg_mpz_srandom_mod
//@ contract
__CPROVER_requires(__tmcg_thrown == 0)
__CPROVER_assigns(draw_n, ghost_val, draw_last, __tmcg_thrown)
__CPROVER_ensures(__tmcg_thrown == (modulo < 2 ? TMCG_EXC_invalid_argument : TMCG_EXC_none))
/* range: the value never lies outside [0, modulo) */
__CPROVER_ensures(modulo >= 2 ==> __CPROVER_return_value < modulo)
/* it is the residue of an accepted word (uniform given (a),(b) of the sampler) */
__CPROVER_ensures(modulo >= 2 ==> __CPROVER_return_value == draw_last % modulo
                               && ULONG_MAX - draw_last >= RHO(modulo))
//@ end
