#include "specdefs.h"
/* assumed contract on the dependency tmcg_mpz_grandom_ui (libgcrypt word):
 * returns an arbitrary machine word and appends it to the ghost draw log */
unsigned long tmcg_mpz_grandom_ui(enum gcry_random_level level)
__CPROVER_assigns(draw_n, ghost_val, draw_last)
__CPROVER_ensures(draw_n == __CPROVER_old(draw_n) + 1)
/* ASSUMPTION: the ghost draw counter does not wrap (fewer than 2^64 draws) */
__CPROVER_ensures(draw_n > __CPROVER_old(draw_n))
__CPROVER_ensures(draw_last == __CPROVER_return_value)
__CPROVER_ensures(__CPROVER_old(draw_n) == ghost_k ==> ghost_val == __CPROVER_return_value)
__CPROVER_ensures(__CPROVER_old(draw_n) != ghost_k ==> ghost_val == __CPROVER_old(ghost_val))
;
