/* residue samplers: arbitrary value below the modulus.  Where the caller repeats the draw until a condition on
 * the drawn value holds (unit, quadratic non-residue), the stub delivers an accepted draw at once: every
 * terminating run ends with one and earlier draws are overwritten (partial correctness unaffected). */
static inline void tmcg_mpz_srandomm(mpz_ptr r, mpz_srcptr m)
{ ex_t v = (ex_t)nondet_ulong(); __CPROVER_assume(0 <= v && v < ex_abs(m->v)); ex_t inv; __CPROVER_assume(ex_invert(v, m->v, &inv)); r->v = v; }
static inline void tmcg_mpz_wrandomm(mpz_ptr r, mpz_srcptr m)
{ ex_t v = (ex_t)nondet_ulong(); __CPROVER_assume(0 <= v && v < ex_abs(m->v)); __mpz_struct t; t.v = v; __CPROVER_assume(mpz_jacobi(&t, m) == -1); r->v = v; }
#define PMAX ((ex_t)1 << EXW)
