#ifdef PFIX
#define FIXP(p) ((p)->v = PFIX)   /* one modulus per run: constant divisors keep the SAT problem small */
#else
#define FIXP(p) ((void)0)
#endif
/* ---------------------------------------------------------------------------
 * Bounded lemmas (C09) over the REAL functions, exact arithmetic, operands of at most EXW bits.
 * ------------------------------------------------------------------------- */
static mpz_t *new_table(void)
{ size_t bytes = TMCG_MAX_FPOWM_T * sizeof(mpz_t); mpz_t *t = (mpz_t *)malloc(bytes); __CPROVER_assume(t != 0); return t; }

/* table-based powers = plain modular power, for every odd modulus 3 <= p < 2^EXW, every base coprime to p,
 * every exponent with |x| < 2^EXW (negative, zero, up to the table limit TMCG_MAX_FPOWM_T = 4 and beyond) */
void h_fpowm_value(void)
{
  mpz_t m, x, p, res, res2, ref; mpz_t *tab = new_table();
  __CPROVER_assume(3 <= p->v && p->v < PMAX && (p->v & 1) == 1);
  __CPROVER_assume(0 <= m->v && m->v < p->v);
  ex_t inv; __CPROVER_assume(ex_invert(m->v, p->v, &inv));               /* base coprime to the modulus */
  __CPROVER_assume(-PMAX < x->v && x->v < PMAX);
  __tmcg_thrown = 0;
  tmcg_mpz_fpowm_precompute(tab, m, p, EXW + 1);
  __CPROVER_assert(__tmcg_thrown == 0, "precompute accepts a non-zero modulus");
  mpz_powm(ref, m, x, p);                                                 /* the mathematical definition (model) */
  res->v = 0; res2->v = 0;
  size_t xb = mpz_sizeinbase(x, 2);
  tmcg_mpz_fpowm(tab, res, m, x, p);
  __CPROVER_assert((__tmcg_thrown == TMCG_EXC_invalid_argument) == (xb > TMCG_MAX_FPOWM_T), "fpowm refuses exactly exponents longer than the table");
  if (__tmcg_thrown == 0) __CPROVER_assert(res->v == ref->v, "C09: fpowm = plain modular power");
  __CPROVER_assert(__tmcg_thrown == 0 || __tmcg_thrown == TMCG_EXC_invalid_argument, "fpowm: no other exception for a coprime base");
  __tmcg_thrown = 0;
  tmcg_mpz_fspowm(tab, res2, m, x, p);
  __CPROVER_assert((__tmcg_thrown == TMCG_EXC_invalid_argument) == (xb > TMCG_MAX_FPOWM_T), "fspowm refuses exactly exponents longer than the table");
  if (__tmcg_thrown == 0) __CPROVER_assert(res2->v == ref->v, "C09: fspowm (timing protected) = plain modular power");
  __CPROVER_assert(__tmcg_thrown == 0 || __tmcg_thrown == TMCG_EXC_invalid_argument, "fspowm: no other exception for a coprime base");
  __CPROVER_assert(x->v != 7 || p->v != 11 || m->v != 2, "REACHABILITY-CANARY (must fail): the case 2^7 mod 11 is explored");
}
void h_fpowm_ui_value(void)
{
  mpz_t m, p, res, ref, xe; mpz_t *tab = new_table(); unsigned long x;
  __CPROVER_assume(3 <= p->v && p->v < PMAX && (p->v & 1) == 1 && 0 <= m->v && m->v < p->v && x < (unsigned long)PMAX);
  __tmcg_thrown = 0;
  tmcg_mpz_fpowm_precompute(tab, m, p, EXW + 1);
  xe->v = (ex_t)x; mpz_powm(ref, m, xe, p); res->v = 0;
  tmcg_mpz_fpowm_ui(tab, res, m, x, p);
  if (__tmcg_thrown == 0) __CPROVER_assert(res->v == ref->v, "C09: fpowm_ui = plain modular power");
  __CPROVER_assert((__tmcg_thrown == TMCG_EXC_invalid_argument) == (mpz_sizeinbase(xe, 2) > TMCG_MAX_FPOWM_T), "fpowm_ui refuses exactly exponents longer than the table");
}
/* constant-time power = plain modular power (odd modulus, base coprime, every sign of the exponent) */
void h_spowm_value(void)
{
  mpz_t m, x, p, res, ref; FIXP(p);
  __CPROVER_assume(3 <= p->v && p->v < PMAX && (p->v & 1) == 1 && 0 <= m->v && m->v < p->v);
  ex_t inv; __CPROVER_assume(ex_invert(m->v, p->v, &inv));
  __CPROVER_assume(-PMAX < x->v && x->v < PMAX);
  __tmcg_thrown = 0; res->v = 0;
  mpz_powm(ref, m, x, p);
  tmcg_mpz_spowm(res, m, x, p);
  __CPROVER_assert(__tmcg_thrown == 0 && res->v == ref->v, "C09: spowm (constant time, sign handling, dummies) = plain modular power");
  __CPROVER_assert(x->v != -3, "REACHABILITY-CANARY (must fail): a negative exponent is explored");
}
/* Chaum-blinded power = plain modular power */
void h_baseblind_value(void)
{
  mpz_t m, x, p, res, ref; FIXP(p);
  __CPROVER_assume(3 <= p->v && p->v < PMAX && (p->v & 1) == 1 && 0 <= m->v && m->v < p->v);
  ex_t inv; __CPROVER_assume(ex_invert(m->v, p->v, &inv));
  __CPROVER_assume(0 <= x->v && x->v < PMAX);
  __tmcg_thrown = 0; res->v = 0;
  mpz_powm(ref, m, x, p);
  tmcg_mpz_spowm_baseblind(res, m, x, p);
  __CPROVER_assert(__tmcg_thrown == 0 && res->v == ref->v, "C09: spowm_baseblind (Chaum blinding) = plain modular power");
  __CPROVER_assert(x->v != 5, "REACHABILITY-CANARY (must fail): the exponent 5 is explored");
}
/* square roots modulo a prime: root^2 = a for every quadratic residue a of the odd prime p */
void h_sqrtmp_r(void)
{
  mpz_t a, p, r1; FIXP(p);
  __CPROVER_assume(3 <= p->v && p->v < PMAX && ex_is_prime(p->v));
  __CPROVER_assume(0 < a->v && a->v < p->v && mpz_jacobi(a, p) == 1);
  __tmcg_thrown = 0; r1->v = 0;
  tmcg_mpz_sqrtmp_r(r1, a, p);
  __CPROVER_assert(__tmcg_thrown == 0 && ex_mod(ex_chk((long)r1->v * (long)r1->v), p->v) == a->v, "C09: sqrtmp_r(a, p)^2 = a (mod p)");
  __CPROVER_assert(a->v != 1, "REACHABILITY-CANARY (must fail): the residue a = 1 is explored");
}
void h_sqrtmp(void)
{
  mpz_t a, p, r2; FIXP(p);
  __CPROVER_assume(3 <= p->v && p->v < PMAX && ex_is_prime(p->v));
  __CPROVER_assume(0 < a->v && a->v < p->v && mpz_jacobi(a, p) == 1);
  __tmcg_thrown = 0; r2->v = 0;
  tmcg_mpz_sqrtmp(r2, a, p);
  __CPROVER_assert(__tmcg_thrown == 0 && ex_mod(ex_chk((long)r2->v * (long)r2->v), p->v) == a->v, "C09: sqrtmp(a, p)^2 = a (mod p)");
  __CPROVER_assert(a->v != 1, "REACHABILITY-CANARY (must fail): the residue a = 1 is explored");
}
