//@ function PedersenCommitmentScheme__ctor_stream
//@ contract
__CPROVER_requires(__CPROVER_is_fresh(self, sizeof(*self)) && IOS_IN_OK(in) && __tmcg_thrown == 0)
/* configuration (not wire data): the number of generators, 1..GCAP (model limit; the library's maximum is 512) */
__CPROVER_requires(1 <= n && n <= GCAP)
__CPROVER_requires(vec_mpz_pool_n == 0 && vec_mpz_pool_cap == GCAP && __CPROVER_is_fresh(vec_mpz_pool_data[0], GCAP * sizeof(mpz_ptr))
                   && __CPROVER_is_fresh(vec_mpz_pool_cells[0], GCAP * sizeof(__mpz_struct)))
__CPROVER_assigns(__CPROVER_object_whole(self), IOS_IN_ASSIGNS(in), __tmcg_thrown, vec_mpz_pool_n, ghost_pre_tab, ghost_pre_t,
                  __CPROVER_object_whole(vec_mpz_pool_data[0]), __CPROVER_object_whole(vec_mpz_pool_cells[0]),
                  __CPROVER_object_whole(new_scratch), __CPROVER_object_whole(table_scratch))
/* C12: whatever the stream contains, construction ends normally or with a standard exception */
__CPROVER_ensures(__tmcg_thrown == 0 || __tmcg_thrown == TMCG_EXC_runtime_error || __tmcg_thrown == TMCG_EXC_invalid_argument)
/* C11 (import half): the object holds exactly the 4 + n integers of the stream, in order: p, q, k, h, g_1..g_n --
 * ALL n generators, whatever n is */
__CPROVER_ensures(__tmcg_thrown == 0 ==> self->F_size == fieldsize && self->G_size == subgroupsize && in->pos == __CPROVER_old(in->pos) + 4 + n)
__CPROVER_ensures(__tmcg_thrown == 0 ==> P == TOKAT(in, __CPROVER_old(in->pos), 0) && Q == TOKAT(in, __CPROVER_old(in->pos), 1)
                  && K == TOKAT(in, __CPROVER_old(in->pos), 2) && H == TOKAT(in, __CPROVER_old(in->pos), 3))
__CPROVER_ensures(__tmcg_thrown == 0 ==> GN == n && (ghost_i < n ==> GI(ghost_i) == TOKAT(in, __CPROVER_old(in->pos), 4 + ghost_i)))
__CPROVER_ensures(__tmcg_thrown == 0 ==> self->fpowm_table_g.size == (n < TMCG_MAX_FPOWM_N ? n : TMCG_MAX_FPOWM_N))
//@ loop 1
__CPROVER_assigns(i, IOS_IN_ASSIGNS(in), __tmcg_thrown, self->g.size, __CPROVER_object_whole(self->g.cells), __CPROVER_object_whole(self->g.data), __CPROVER_object_whole(new_scratch))
__CPROVER_loop_invariant(i <= n && GN == i && __tmcg_thrown == 0 && in->pos == __CPROVER_loop_entry(in->pos) + i)
__CPROVER_loop_invariant(self->g.cells == vec_mpz_pool_cells[0] && self->g.data == vec_mpz_pool_data[0] && self->g.cap == GCAP)
__CPROVER_loop_invariant(ghost_i < i ==> GI(ghost_i) == TOKAT(in, __CPROVER_loop_entry(in->pos), ghost_i))
__CPROVER_decreases(n - i)
//@ loop 2
__CPROVER_assigns(i, __tmcg_thrown, self->fpowm_table_g.size, __CPROVER_object_whole(table_scratch), __CPROVER_object_whole(self->g.data), ghost_pre_tab, ghost_pre_t)
__CPROVER_loop_invariant(i <= GN && i <= TMCG_MAX_FPOWM_N && self->fpowm_table_g.size == i && __tmcg_thrown == 0)
__CPROVER_decreases(GN - i)
//@ end

//@ function PedersenCommitmentScheme__PublishGroup
//@ contract
__CPROVER_requires(__CPROVER_is_fresh(self, sizeof(*self)) && __CPROVER_is_fresh(out, sizeof(ios_t)) && out->nput == 0)
__CPROVER_requires(self->g.cap == GCAP && self->g.size <= GCAP && __CPROVER_is_fresh(self->g.data, GCAP * sizeof(mpz_ptr))
                   && __CPROVER_is_fresh(self->g.cells, GCAP * sizeof(__mpz_struct)))
__CPROVER_assigns(IOS_OUT_ASSIGNS(out), __CPROVER_object_whole(self->g.data))
/* C11 (export half): exactly 4 + n integers are written, in the order the constructor reads them: p, q, k, h,
 * g_1..g_n (integer number ghost_ok of the output, ghost_ok arbitrary) */
__CPROVER_ensures(out->nput == 4 + GN)
__CPROVER_ensures(ghost_ok == 0 ==> out->okv == P)
__CPROVER_ensures(ghost_ok == 1 ==> out->okv == Q)
__CPROVER_ensures(ghost_ok == 2 ==> out->okv == K)
__CPROVER_ensures(ghost_ok == 3 ==> out->okv == H)
__CPROVER_ensures(4 <= ghost_ok && ghost_ok < 4 + GN ==> out->okv == GI(ghost_ok - 4))
//@ loop 1
__CPROVER_assigns(i, IOS_OUT_ASSIGNS(out), __CPROVER_object_whole(self->g.data))
__CPROVER_loop_invariant(i <= GN && out->nput == 4 + i)
__CPROVER_loop_invariant(ghost_ok == 0 ==> out->okv == P)
__CPROVER_loop_invariant(ghost_ok == 1 ==> out->okv == Q)
__CPROVER_loop_invariant(ghost_ok == 2 ==> out->okv == K)
__CPROVER_loop_invariant(ghost_ok == 3 ==> out->okv == H)
__CPROVER_loop_invariant(4 <= ghost_ok && ghost_ok < 4 + i ==> out->okv == GI(ghost_ok - 4))
__CPROVER_decreases(GN - i)
//@ end

//@ function PedersenCommitmentScheme__Verify
//@ contract
__CPROVER_requires(__CPROVER_is_fresh(self, sizeof(*self)) && MPZ_OK(c) && MPZ_OK(r) && __tmcg_thrown == 0 && P != 0 && WORD_OK(V(r)))
__CPROVER_requires(self->g.cap == GCAP && self->g.size <= GCAP && __CPROVER_is_fresh(self->g.data, GCAP * sizeof(mpz_ptr)) && __CPROVER_is_fresh(self->g.cells, GCAP * sizeof(__mpz_struct)))
__CPROVER_requires(__CPROVER_is_fresh(m, sizeof(*m)) && m->cap == GCAP && m->size <= self->g.size && __CPROVER_is_fresh(m->data, GCAP * sizeof(mpz_ptr)) && __CPROVER_is_fresh(m->cells, GCAP * sizeof(__mpz_struct)))
/* class invariant after construction: h's table belongs to h, one table per generator up to the limit */
__CPROVER_requires(__CPROVER_is_fresh(self->fpowm_table_h, TMCG_MAX_FPOWM_T * sizeof(mpz_t)) && V(self->fpowm_table_h[0]) == H)
__CPROVER_requires(self->fpowm_table_g.size == (self->g.size < TMCG_MAX_FPOWM_N ? self->g.size : TMCG_MAX_FPOWM_N))
/* side condition of the abstract integers (machine arithmetic treated as mathematical) for every message */
__CPROVER_requires(__CPROVER_forall { size_t kk; (kk < GCAP) ==> WORD_OK(m->cells[kk].v) })
__CPROVER_assigns(__tmcg_thrown, __CPROVER_object_whole(self->g.data), __CPROVER_object_whole(m->data), vec_tab_slot)
/* C05: an opening is accepted only if the randomiser lies below the group order and the commitment in 1..p-1 --
 * out-of-range values are refused, not reduced */
__CPROVER_ensures(__CPROVER_return_value ==> (V(r) < Q && 0 < V(c) && V(c) < P))
//@ loop 1
__CPROVER_assigns(i, V(tmp), V(c2), __tmcg_thrown, __CPROVER_object_whole(self->g.data), __CPROVER_object_whole(m->data), vec_tab_slot)
__CPROVER_loop_invariant(i <= m->size && __tmcg_thrown == 0)
__CPROVER_decreases(m->size - i)
//@ end
