void h_ctor(void) { PedersenCommitmentScheme *self; size_t n; ios_t *in; unsigned long f, g; PedersenCommitmentScheme__ctor_stream(self, n, in, f, g);
  __CPROVER_assert(__tmcg_thrown != 0, "REACHABILITY-CANARY (must fail): a construction without exception exists"); }
void h_publish(void) { PedersenCommitmentScheme *self; ios_t *out; PedersenCommitmentScheme__PublishGroup(self, out); }
void h_verify(void) { PedersenCommitmentScheme *self; mpz_srcptr c, r; vec_mpz *m; PedersenCommitmentScheme__Verify(self, c, r, m); }
