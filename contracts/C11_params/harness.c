void h_ctor(void) { PedersenCommitmentScheme *self; size_t n; ios_t *in; unsigned long f, g; PedersenCommitmentScheme__ctor_stream(self, n, in, f, g); }
void h_publish(void) { PedersenCommitmentScheme *self; ios_t *out; PedersenCommitmentScheme__PublishGroup(self, out); }
