/* std::vector<mpz_t*> (the fixed-base tables of the generators): only its size matters here */
typedef struct { size_t size; } vec_tab;
