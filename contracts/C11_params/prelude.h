#include "specdefs.h"
size_t ghost_i;   /* arbitrary generator index, never assigned */
mpz_ptr *vec_mpz_pool_data[VEC_MPZ_POOL]; __mpz_struct *vec_mpz_pool_cells[VEC_MPZ_POOL]; size_t vec_mpz_pool_n, vec_mpz_pool_cap;
static inline void vec_tab__ctor_0(vec_tab *v) { v->size = 0; }
static inline size_t vec_tab__size(vec_tab *v) { return v->size; }
static inline void vec_tab__push_back(vec_tab *v, mpz_t *t) { (void)t; __CPROVER_assume(v->size + 1 > v->size); v->size = v->size + 1; }
/* operator new inside the loops: abstracted (dfcc does not allow allocation inside a loop under contract): the
 * integer object read from the stream lives in a scratch object until push_back copies its value into the vector's
 * own cell (VEC_MPZ_PUSH_COPIES); the fixed-base tables are one scratch table (their contents are not part of the
 * exported state) */
__mpz_struct new_scratch[1];
mpz_t table_scratch[TMCG_MAX_FPOWM_T];
#define __verif_new_array(sz, n) ((n) == 1UL ? (void *)new_scratch : (void *)table_scratch)
#undef __verif_new_array_zero
#define __verif_new_array_zero(sz, n) __verif_new_array((sz), (n))
static inline void tmcg_mpz_fpowm_init(mpz_t *t) { (void)t; /* mpz_init of every entry */ }
/* element access of the table vector: the index is asserted, every slot stands for the one scratch table */
static mpz_t *vec_tab_slot;
static inline mpz_t **vec_tab__op_index(vec_tab *v, size_t i) { __CPROVER_assert(i < v->size, "vector index in range"); vec_tab_slot = table_scratch; return &vec_tab_slot; }
