#ifndef C11_PARAMS_SPECDEFS
#define C11_PARAMS_SPECDEFS
#ifndef GCAP
#define GCAP ((size_t)600)
#endif
#define P V(self->p)
#define Q V(self->q)
#define K V(self->k)
#define H V(self->h)
#define GN (self->g.size)
#define GI(i) (self->g.cells[(i) < GCAP ? (i) : 0].v)
/* input token number k counted from the position at entry */
#define TOKAT(in, pos0, k) ((in)->tok[((pos0) + (k)) < IOS_MAXTOK ? ((pos0) + (k)) : 0])
extern size_t ghost_i;
#endif
