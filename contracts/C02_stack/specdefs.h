#ifndef C02_STACK_SPECDEFS_H
#define C02_STACK_SPECDEFS_H
#ifndef MAXN
#define MAXN TMCG_MAX_CARDS
#endif
#ifndef ALL
#define ALL(k, body) __CPROVER_forall { size_t k; (k < MAXN) ==> (body) }
#endif
#define VP V(vtmf->p)
#define VQ V(vtmf->q)
#define VG V(vtmf->g)
#define VH V(vtmf->h)
#define MULMOD(a, b, m) MOD(MUL((a), (b)), (m))
/* re-masking of one ElGamal component with exponent r: c * base^r mod p */
#define MASK1(c1, r) MULMOD(POWM(VG, (r), VP), (c1), VP)
#define MASK2(c2, r) MULMOD(POWM(VH, (r), VP), (c2), VP)
/* well-formed container objects (model capacity MAXN) */
/* Objects come from __CPROVER_is_fresh, i.e. as BYTE arrays: CBMC 6.11 answers reads through a pointer to an inner
 * member at a symbolic index of a TYPED array inconsistently (measured: &data[i].second then ->r->v differs from
 * data[i].second.r->v), which shows up as spurious failures; byte-typed objects do not have the problem. */
#define STACK_OK(s) (__CPROVER_is_fresh((s), sizeof(*(s))) && (s)->stack.cap == MAXN && (s)->stack.size <= MAXN && \
                     __CPROVER_is_fresh((s)->stack.data, MAXN * sizeof(VTMF_Card)))
#define SS_OK(s) (__CPROVER_is_fresh((s), sizeof(*(s))) && (s)->stack.cap == MAXN && (s)->stack.size <= MAXN && \
                  __CPROVER_is_fresh((s)->stack.data, MAXN * sizeof(pair_ulong_VTMF_CardSecret)))
#define SSI(ss, i) ((ss)->stack.data[(i)].first)           /* i-th index of a stack secret */
#define SSR(ss, i) V((ss)->stack.data[(i)].second.r)       /* i-th masking exponent */
/* ghost state of the stack-level contracts (never assigned by any code) */
size_t ghost_i;            /* arbitrary position */
long ghost_e1, ghost_e2;   /* names of the two masked components at position ghost_i (tied by an ENFORCE requires) */
size_t ghost_pos[MAXN];    /* Skolem function of find_position: position at which an index occurs */
#define C1(s, i) V((s)->stack.data[(i)].c_1)
#define C2(s, i) V((s)->stack.data[(i)].c_2)
#endif
