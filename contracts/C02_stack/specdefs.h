#ifndef C02_STACK_SPECDEFS_H
#define C02_STACK_SPECDEFS_H
#ifndef MAXN
#define MAXN 512 /* TMCG_MAX_CARDS; the finder variant uses a small value */
#endif
#define ALL(k, body) __CPROVER_forall { size_t k; (k < MAXN) ==> (body) }
#define VP V(vtmf->p)
#define VQ V(vtmf->q)
#define VG V(vtmf->g)
#define VH V(vtmf->h)
#define MULMOD(a, b, m) MOD(MUL((a), (b)), (m))
/* re-masking of one ElGamal component with exponent r: c * base^r mod p */
#define MASK1(c1, r) MULMOD(POWM(VG, (r), VP), (c1), VP)
#define MASK2(c2, r) MULMOD(POWM(VH, (r), VP), (c2), VP)
/* well-formed container objects (model capacity MAXN) */
#define STACK_OK(s) (__CPROVER_is_fresh((s), sizeof(*(s))) && (s)->stack.cap == MAXN && (s)->stack.size <= MAXN && \
                     __CPROVER_is_fresh((s)->stack.data, MAXN * sizeof(VTMF_Card)))
#define SS_OK(s) (__CPROVER_is_fresh((s), sizeof(*(s))) && (s)->stack.cap == MAXN && (s)->stack.size <= MAXN && \
                  __CPROVER_is_fresh((s)->stack.data, MAXN * sizeof(pair_ulong_VTMF_CardSecret)))
#define SSI(ss, i) ((ss)->stack.data[(i)].first)           /* i-th index of a stack secret */
#define SSR(ss, i) V((ss)->stack.data[(i)].second.r)       /* i-th masking exponent */
#define C1(s, i) V((s)->stack.data[(i)].c_1)
#define C2(s, i) V((s)->stack.data[(i)].c_2)
#endif
