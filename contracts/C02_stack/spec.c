//@ function SchindelhauerTMCG__TMCG_MixStack
//@ contract
__CPROVER_requires(__CPROVER_is_fresh(self, sizeof(*self)) && STACK_OK(s) && STACK_OK(s2) && SS_OK(ss) && __CPROVER_is_fresh(vtmf, sizeof(*vtmf)))
/* the function's own assert, and what its indexing needs: every index of the secret addresses a card */
__CPROVER_requires(s->stack.size == ss->stack.size)
__CPROVER_requires(ALL(q, q < ss->stack.size ==> SSI(ss, q) < ss->stack.size))
#ifdef ENFORCE_SchindelhauerTMCG__TMCG_MixStack
__CPROVER_requires(ghost_i < s->stack.size ==>
   ghost_e1 == MASK1(C1(s, SSI(ss, ghost_i)), SSR(ss, SSI(ss, ghost_i))) &&
   ghost_e2 == MASK2(C2(s, SSI(ss, ghost_i)), SSR(ss, SSI(ss, ghost_i))))
#endif
__CPROVER_assigns(s2->stack.size, __CPROVER_object_whole(s2->stack.data))
/* C02: same size, and the i-th output card is the re-masking of the input card designated by the
 * secret's i-th index (ghost_i arbitrary) -- no card duplicated, dropped or taken from elsewhere */
__CPROVER_ensures(s2->stack.size == s->stack.size)
__CPROVER_ensures(ghost_i < s->stack.size ==>
   C1(s2, ghost_i) == MASK1(C1(s, SSI(ss, ghost_i)), SSR(ss, SSI(ss, ghost_i))) &&
   C2(s2, ghost_i) == MASK2(C2(s, SSI(ss, ghost_i)), SSR(ss, SSI(ss, ghost_i))))
//@ loop 1
__CPROVER_assigns(i, s2->stack.size, __CPROVER_object_whole(s2->stack.data))
__CPROVER_loop_invariant(i <= s->stack.size && s2->stack.size == i)
__CPROVER_loop_invariant(ghost_i < i ==> C1(s2, ghost_i) == ghost_e1 && C2(s2, ghost_i) == ghost_e2)
__CPROVER_decreases(s->stack.size - i)
//@ end
