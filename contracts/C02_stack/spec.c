//@ function SchindelhauerTMCG__TMCG_MixStack
//@ contract
__CPROVER_requires(__CPROVER_is_fresh(self, sizeof(*self)) && STACK_OK(s) && STACK_OK(s2) && SS_OK(ss) && __CPROVER_is_fresh(vtmf, sizeof(*vtmf)))
/* the function's own assert, and what its indexing needs: every index of the secret addresses a card */
__CPROVER_requires(s->stack.size == ss->stack.size)
__CPROVER_requires(ALL(q, q < ss->stack.size ==> SSI(ss, q) < ss->stack.size))
#ifdef ENFORCE_SchindelhauerTMCG__TMCG_MixStack
__CPROVER_requires(ghost_i < s->stack.size ==>
   ghost_e1 == MASK1(C1(s, SSI(ss, ghost_i)), SSR(ss, SSI(ss, ghost_i))) &&
   ghost_e2 == MASK2(C2(s, SSI(ss, ghost_i)), SSR(ss, SSI(ss, ghost_i))))
#endif
__CPROVER_assigns(s2->stack.size, __CPROVER_object_whole(s2->stack.data))
/* C02: same size, and the i-th output card is the re-masking of the input card designated by the
 * secret's i-th index (ghost_i arbitrary) -- no card duplicated, dropped or taken from elsewhere */
__CPROVER_ensures(s2->stack.size == s->stack.size)
__CPROVER_ensures(ghost_i < s->stack.size ==>
   C1(s2, ghost_i) == MASK1(C1(s, SSI(ss, ghost_i)), SSR(ss, SSI(ss, ghost_i))) &&
   C2(s2, ghost_i) == MASK2(C2(s, SSI(ss, ghost_i)), SSR(ss, SSI(ss, ghost_i))))
//@ loop 1
__CPROVER_assigns(i, s2->stack.size, __CPROVER_object_whole(s2->stack.data))
__CPROVER_loop_invariant(i <= s->stack.size && s2->stack.size == i)
__CPROVER_loop_invariant(ghost_i < i ==> C1(s2, ghost_i) == ghost_e1 && C2(s2, ghost_i) == ghost_e2)
__CPROVER_decreases(s->stack.size - i)
//@ end

//@ function TMCG_StackSecret_VTMF_CardSecret__import
//@ contract
/* import into a fresh object (C11: stack secrets do not reset on import) */
__CPROVER_requires(SS_OK(self) && self->stack.size == 0)
__CPROVER_assigns(self->stack.size, __CPROVER_object_whole(self->stack.data), PARSE_ASSIGNS)
/* C02: an accepted stack secret has 1..TMCG_MAX_CARDS entries, every index is below the size, and every
 * i below the size occurs as an index (ghost_i arbitrary; ghost_pos[] names the position): the index
 * component is a surjection of a finite set onto itself, i.e. a bijection.  A non-bijection is refused. */
__CPROVER_ensures(__CPROVER_return_value ==> 1 <= self->stack.size && self->stack.size <= TMCG_MAX_CARDS)
__CPROVER_ensures(__CPROVER_return_value && ghost_i < self->stack.size ==> SSI(self, ghost_i) < self->stack.size)
__CPROVER_ensures(__CPROVER_return_value && ghost_i < self->stack.size ==>
                  ghost_pos[ghost_i] < self->stack.size && SSI(self, ghost_pos[ghost_i]) == ghost_i)
//@ loop 1
__CPROVER_assigns(i, self->stack.size, __CPROVER_object_whole(self->stack.data), ec, PARSE_ASSIGNS)
__CPROVER_loop_invariant(i <= size && self->stack.size == i && 1 <= size && size <= MAXN)
__CPROVER_loop_invariant(ghost_i < i ==> SSI(self, ghost_i) < size)
__CPROVER_decreases(size - i)
//@ loop 2
__CPROVER_assigns(i)
__CPROVER_loop_invariant(i <= size)
__CPROVER_loop_invariant(ghost_i < i ==> ghost_pos[ghost_i] < size && SSI(self, ghost_pos[ghost_i]) == ghost_i)
__CPROVER_decreases(size - i)
//@ end

//@ function SchindelhauerTMCG__TMCG_CreateStackSecret_pi
//@ contract
__CPROVER_requires(__CPROVER_is_fresh(self, sizeof(*self)) && SS_OK(ss) && ss->stack.size == 0 && size <= MAXN)
__CPROVER_requires(__CPROVER_is_fresh(pi, sizeof(*pi)) && pi->size == size && pi->cap == MAXN && __CPROVER_is_fresh(pi->data, MAXN * sizeof(size_t)))
__CPROVER_requires(__CPROVER_is_fresh(vtmf, sizeof(*vtmf)))
__CPROVER_assigns(ss->stack.size, __CPROVER_object_whole(ss->stack.data))
/* the secret carries exactly the given index vector */
__CPROVER_ensures(ss->stack.size == size)
__CPROVER_ensures(ghost_i < size ==> SSI(ss, ghost_i) == pi->data[ghost_i])
//@ loop 1
__CPROVER_assigns(i, ss->stack.size, __CPROVER_object_whole(ss->stack.data))
__CPROVER_loop_invariant(i <= size && ss->stack.size == i)
__CPROVER_loop_invariant(ghost_i < i ==> SSI(ss, ghost_i) == pi->data[ghost_i])
__CPROVER_decreases(size - i)
//@ end

//@ function SchindelhauerTMCG__TMCG_CreateStackSecret_cyclic
//@ contract
__CPROVER_requires(__CPROVER_is_fresh(self, sizeof(*self)) && SS_OK(ss) && __CPROVER_is_fresh(vtmf, sizeof(*vtmf)))
__CPROVER_requires((cyclic ? 2 : 1) <= size && size <= MAXN && __tmcg_thrown == 0)
__CPROVER_assigns(ss->stack.size, __CPROVER_object_whole(ss->stack.data))
__CPROVER_assigns(mod_n, ghost_jmod, ghost_jret, draw_n, ghost_val, draw_last, __tmcg_thrown)
__CPROVER_ensures(__tmcg_thrown == 0 && ss->stack.size == size)
/* C02: a freshly generated stack secret contains a bijection on {0..n-1} ... */
__CPROVER_ensures(ghost_i < size ==> SSI(ss, ghost_i) < size)
__CPROVER_ensures(!cyclic ==> ALL(a, a < size ==> ALL(b, b < a ==> SSI(ss, a) != SSI(ss, b))))
/* ... and a cyclic shift by exactly the reported offset when a rotation was requested */
__CPROVER_ensures(cyclic ==> __CPROVER_return_value < size && (ghost_i < size ==> SSI(ss, ghost_i) == (ghost_i + size - __CPROVER_return_value) % size))
//@ loop 1
__CPROVER_assigns(i, ss->stack.size, __CPROVER_object_whole(ss->stack.data))
__CPROVER_loop_invariant(i <= size && ss->stack.size == i && pi.size == size)
__CPROVER_loop_invariant(ALL(li, li < i ==> SSI(ss, li) == pi.data[li]))
__CPROVER_decreases(size - i)
//@ end
