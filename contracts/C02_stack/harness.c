void h_MixStack(void) { SchindelhauerTMCG *self; TMCG_Stack_VTMF_Card *s, *s2; TMCG_StackSecret_VTMF_CardSecret *ss; BarnettSmartVTMF_dlog *vtmf; _Bool t;
  SchindelhauerTMCG__TMCG_MixStack(self, s, s2, ss, vtmf, t); }
void h_import(void) { TMCG_StackSecret_VTMF_CardSecret *self; str_t s; TMCG_StackSecret_VTMF_CardSecret__import(self, s); }
void h_css_pi(void) { SchindelhauerTMCG *self; TMCG_StackSecret_VTMF_CardSecret *ss; vec_ulong *pi; size_t n; BarnettSmartVTMF_dlog *v; SchindelhauerTMCG__TMCG_CreateStackSecret_pi(self, ss, pi, n, v); }
void h_css_cyclic(void) { SchindelhauerTMCG *self; TMCG_StackSecret_VTMF_CardSecret *ss; _Bool c; size_t n; BarnettSmartVTMF_dlog *v; SchindelhauerTMCG__TMCG_CreateStackSecret_cyclic(self, ss, c, n, v); }
