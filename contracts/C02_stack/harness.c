void h_MixStack(void) { SchindelhauerTMCG *self; TMCG_Stack_VTMF_Card *s, *s2; TMCG_StackSecret_VTMF_CardSecret *ss; BarnettSmartVTMF_dlog *vtmf; _Bool t;
  SchindelhauerTMCG__TMCG_MixStack(self, s, s2, ss, vtmf, t); }
