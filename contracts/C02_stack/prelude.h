#include "specdefs.h"
/* assumed contract on the (separately treated, group C01) card masking: the output card is the
 * component-wise re-masking of the input card with the secret's exponent */
void SchindelhauerTMCG__TMCG_MaskCard(SchindelhauerTMCG *self, VTMF_Card *c, VTMF_Card *cc, VTMF_CardSecret *cs,
                                      BarnettSmartVTMF_dlog *vtmf, _Bool TimingAttackProtection)
{
  (void)self; (void)TimingAttackProtection;
  long a = MASK1(V(c->c_1), V(cs->r)), b = MASK2(V(c->c_2), V(cs->r));
  cc->c_1->v = a; cc->c_2->v = b;
}
/* R13: TMCG_StackSecret<>::find_position is std::find_if / std::bind2nd / std::distance over the pairs.
 * TRUSTED, stated from ISO C++: the first position whose .first equals index, else size().  The result is
 * additionally named by the never-assigned ghost array ghost_pos[] (Skolem function for "index occurs at
 * some position"); sound while the container is unchanged between the calls of one loop. */
size_t TMCG_StackSecret_VTMF_CardSecret__find_position(TMCG_StackSecret_VTMF_CardSecret *self, size_t index)
__CPROVER_requires(__CPROVER_r_ok(self, sizeof(*self)) && self->stack.size <= MAXN && index < MAXN)
__CPROVER_assigns()
__CPROVER_ensures(__CPROVER_return_value <= self->stack.size)
__CPROVER_ensures(__CPROVER_return_value < self->stack.size ==> self->stack.data[__CPROVER_return_value].first == index)
__CPROVER_ensures(__CPROVER_return_value == self->stack.size ==> ALL(fpj, fpj < self->stack.size ==> self->stack.data[fpj].first != index))
__CPROVER_ensures(__CPROVER_return_value == ghost_pos[index])
;
/* card-secret sub-import: arbitrary outcome */
static inline _Bool VTMF_CardSecret__import(VTMF_CardSecret *cs, str_t s) { (void)s; cs->r->v = (long)nondet_ulong(); return nondet_bool(); }
/* fresh masking exponent of one card (BarnettSmartVTMF_dlog::MaskingValue): arbitrary value */
void SchindelhauerTMCG__TMCG_CreateCardSecret_vtmf(SchindelhauerTMCG *self, VTMF_CardSecret *cs, BarnettSmartVTMF_dlog *vtmf)
__CPROVER_requires(__CPROVER_w_ok(cs, sizeof(*cs)))
__CPROVER_assigns(V(cs->r))
;
