#include "specdefs.h"
size_t ghost_i;            /* arbitrary position, never assigned */
long ghost_e1, ghost_e2;   /* names of the two masked components at position ghost_i (tied by an ENFORCE requires) */
/* assumed contract on the (separately treated, group C01) card masking: the output card is the
 * component-wise re-masking of the input card with the secret's exponent */
void SchindelhauerTMCG__TMCG_MaskCard(SchindelhauerTMCG *self, VTMF_Card *c, VTMF_Card *cc, VTMF_CardSecret *cs,
                                      BarnettSmartVTMF_dlog *vtmf, _Bool TimingAttackProtection)
__CPROVER_requires(__CPROVER_r_ok(c, sizeof(*c)) && __CPROVER_r_ok(cs, sizeof(*cs)) && __CPROVER_w_ok(cc, sizeof(*cc)))
__CPROVER_assigns(V(cc->c_1), V(cc->c_2))
__CPROVER_ensures(V(cc->c_1) == MASK1(V(c->c_1), V(cs->r)) && V(cc->c_2) == MASK2(V(c->c_2), V(cs->r)))
;
