#ifndef C05_VTMF_SPECDEFS_H
#define C05_VTMF_SPECDEFS_H
#include "../C06_vtmf/specdefs.h"
#define H V(self->h)
#define HASHLEN8 (UF(hashlen)() * 8)
#define ABSV(x) ((x) < 0 ? -(x) : (x))
#define IOS_GOOD(s) (!(s)->fail && !((s)->pos >= (s)->ntok && (s)->eof_after_last))
/* k-th token of the input queue counted from the position at entry */
/* (the index is clamped so that the term is well defined on refusing paths too) */
#define TOK(s, k) ((s)->tok[(__CPROVER_old((s)->pos) + (k)) < IOS_MAXTOK ? __CPROVER_old((s)->pos) + (k) : 0])
#define READ_OK(s, n) ((s)->pos == __CPROVER_old((s)->pos) + (n) && IOS_GOOD(s))
#define MULMOD(a, b, m) MOD(MUL((a), (b)), (m))
/* class invariant of an initialised, finalised VTMF object (documented usage: CheckGroup was called,
 * KeyGenerationProtocol_Finalize was called): tables belong to g and h, |q| fits the table */
#define VTMF_INV(self) (__CPROVER_is_fresh((self), sizeof(*(self))) && \
   __CPROVER_is_fresh((self)->fpowm_table_g, TMCG_MAX_FPOWM_T * sizeof(mpz_t)) && \
   __CPROVER_is_fresh((self)->fpowm_table_h, TMCG_MAX_FPOWM_T * sizeof(mpz_t)) && \
   V((self)->fpowm_table_g[0]) == G && V((self)->fpowm_table_h[0]) == H && \
   P > 1 && Q > 0 && UF(bits)(Q) <= (unsigned long)TMCG_MAX_FPOWM_T && WORD_OK(Q))
#endif
