//@ function BarnettSmartVTMF_dlog__KeyGenerationProtocol_VerifyNIZK
//@ contract
__CPROVER_requires(VTMF_INV(self) && MPZ_OK(foo) && MPZ_OK(c) && MPZ_OK(r) && __tmcg_thrown == 0)
__CPROVER_requires(WORD_OK(V(r)))
__CPROVER_assigns(__tmcg_thrown)
/* C05/C04/C03: the key-share proof is accepted exactly when the key is a group element, c and r are in
 * range, and c is the hash of EXACTLY (p, q, g, key, g^r * key^c mod p) */
/* a negative response whose power is not invertible makes the fixed-base power throw std::runtime_error */
__CPROVER_ensures(__tmcg_thrown == 0 || (__tmcg_thrown == TMCG_EXC_runtime_error && V(r) < 0))
__CPROVER_ensures(__CPROVER_return_value ==
   (__tmcg_thrown == 0 && (0 < V(foo) && V(foo) < P && POWM(V(foo), Q, P) == 1)
    && UF(bits)(V(c)) <= HASHLEN8 && ABSV(V(r)) < Q
    && V(c) == UF(hash5)(P, Q, G, V(foo), MULMOD(POWM(G, V(r), P), POWM(V(foo), V(c), P), P))))
//@ end

//@ function BarnettSmartVTMF_dlog__CP_Verify
//@ contract
__CPROVER_requires(VTMF_INV(self) && MPZ_OK(x) && MPZ_OK(y) && MPZ_OK(gg) && MPZ_OK(hh) && IOS_IN_OK(in) && __tmcg_thrown == 0)
/* documented usage of the fixed-base path (CP_Prove asserts the same): the bases are the table bases */
__CPROVER_requires(fpowm_usage ==> V(gg) == G && V(hh) == H)
__CPROVER_requires(in->pos + 2 <= in->ntok ==> WORD_OK(in->tok[in->pos + 1]))
__CPROVER_assigns(IOS_IN_ASSIGNS(in), __tmcg_thrown)
/* only std::runtime_error can escape: a malformed number in the stream, or (fixed-base path) a negative
 * response whose power is not invertible */
__CPROVER_ensures(__tmcg_thrown == 0 || (__tmcg_thrown == TMCG_EXC_runtime_error &&
                  (in->fail || (fpowm_usage && READ_OK(in, 2) && TOK(in, 1) < 0))))
/* C03/C04/C05: accepted exactly when two numbers c, r arrive, both in range, and c is the hash of EXACTLY
 * (p, q, g, h, gg^r x^c, hh^r y^c, x, y, gg, hh) -- both verification equations, all public inputs bound */
__CPROVER_ensures(__CPROVER_return_value ==
   (__tmcg_thrown == 0 && READ_OK(in, 2)
    && UF(bits)(TOK(in, 0)) <= HASHLEN8 && ABSV(TOK(in, 1)) < Q
    && TOK(in, 0) == UF(hash10)(P, Q, G, H,
         MULMOD(POWM(V(gg), TOK(in, 1), P), POWM(V(x), TOK(in, 0), P), P),
         MULMOD(POWM(V(hh), TOK(in, 1), P), POWM(V(y), TOK(in, 0), P), P),
         V(x), V(y), V(gg), V(hh))))
//@ end

//@ function BarnettSmartVTMF_dlog__OR_Verify
//@ contract
__CPROVER_requires(VTMF_INV(self) && MPZ_OK(y_1) && MPZ_OK(y_2) && MPZ_OK(g_1) && MPZ_OK(g_2) && IOS_IN_OK(in) && __tmcg_thrown == 0)
__CPROVER_requires(in->pos + 4 <= in->ntok ==> WORD_OK(in->tok[in->pos]) && WORD_OK(in->tok[in->pos + 1]) && WORD_OK(in->tok[in->pos + 2]) && WORD_OK(in->tok[in->pos + 3]))
__CPROVER_assigns(IOS_IN_ASSIGNS(in), __tmcg_thrown)
__CPROVER_ensures(__tmcg_thrown == 0 || (__tmcg_thrown == TMCG_EXC_runtime_error && in->fail))
/* accepted exactly when four numbers c1, c2, r1, r2 arrive, r1 and r2 are in range and
 * (c1 + c2) mod q = H(p, q, g, h, g1, y1, g2, y2, y1^c1 g1^r1, y2^c2 g2^r2) mod q */
__CPROVER_ensures(__CPROVER_return_value ==
   (__tmcg_thrown == 0 && READ_OK(in, 4)
    && ABSV(TOK(in, 2)) < Q && ABSV(TOK(in, 3)) < Q
    && MOD(TOK(in, 0) + TOK(in, 1), Q) == MOD(UF(hash10)(P, Q, G, H, V(g_1), V(y_1), V(g_2), V(y_2),
         MULMOD(POWM(V(y_1), TOK(in, 0), P), POWM(V(g_1), TOK(in, 2), P), P),
         MULMOD(POWM(V(y_2), TOK(in, 1), P), POWM(V(g_2), TOK(in, 3), P), P)), Q)))
//@ end
