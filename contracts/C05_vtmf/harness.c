void h_VerifyNIZK(void) { BarnettSmartVTMF_dlog *self; mpz_srcptr foo, c, r; BarnettSmartVTMF_dlog__KeyGenerationProtocol_VerifyNIZK(self, foo, c, r); }
void h_CP_Verify(void) { BarnettSmartVTMF_dlog *self; mpz_srcptr x, y, gg, hh; ios_t *in; _Bool f; BarnettSmartVTMF_dlog__CP_Verify(self, x, y, gg, hh, in, f); }
void h_OR_Verify(void) { BarnettSmartVTMF_dlog *self; mpz_srcptr a, b, c, d; ios_t *in; BarnettSmartVTMF_dlog__OR_Verify(self, a, b, c, d, in); }
