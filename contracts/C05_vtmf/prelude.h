#include "specdefs.h"
