#ifndef C09_PRIMES_SPECDEFS
#define C09_PRIMES_SPECDEFS
#define BITS(x) UF(bits)(x)
#define ISPRIME(x) (UF(prime)(x) != 0)
#define ODD(x) (((x) & 1L) != 0)
#define CONGR(x, c, d) UF(congruent_ui)((x), (c), (d))
/* the value ghost_pv (arbitrary) was tested, most recently with `reps` repetitions */
#define TESTED(x, reps) ((x) == ghost_pv ==> g_pv_tested && g_pv_reps == (int)(reps))
/* p = 2q + 1 with q odd and positive, written without an expression that could overflow the abstract word */
#define SAFE_PAIR(p, q) (ODD(q) && (q) > 0 && ODD(p) && (q) == ((p) - 1) / 2)
#define TESTFN_OK(t, p) (((t) == test7mod8 ==> CONGR((p), 7, 8)) && ((t) == test3mod4 ==> CONGR((p), 3, 4)))
/* "x has at least n bits", in witness form: the most recent bit-length query was on a value w with 0 <= w <= x and
 * answered >= n.  (BITS(x) >= n follows by monotonicity of the bit length, a fact of the integers the proof does
 * not need.) */
#define SIZE_AT_LEAST(x, n) (0 <= g_size_arg && g_size_arg <= (x) && g_size_res >= (n) && g_size_res == BITS(g_size_arg))
#endif
