typedef int (*sprime_test_fn)(mpz_ptr, mpz_ptr);
