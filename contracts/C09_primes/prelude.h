#include "specdefs.h"
/* ---- ghost monitors (called from the GMP model, DESIGN.md 2.3) -------------------------------------------
 * size: the most recent bit-length query and its answer; prime: for ONE arbitrary value ghost_pv (never
 * assigned, so every value) whether a probabilistic primality test ran on it and with how many repetitions
 * the most recent one ran */
long g_size_arg; unsigned long g_size_res;
void verif_size_hook(unsigned long r, mpz_srcptr a, int base) { if (base == 2) { g_size_arg = a->v; g_size_res = r; } }
long ghost_pv; _Bool g_pv_tested; int g_pv_reps; int g_pv_res;
void verif_prime_hook(int r, mpz_srcptr a, int reps) { if (a->v == ghost_pv) { g_pv_tested = 1; g_pv_reps = reps; g_pv_res = r; } }
/* assumed contract on the dependency (libgcrypt random bits): an arbitrary non-negative integer below 2^size */
static inline void tmcg_mpz_srandomb(mpz_ptr r, unsigned long size)
{ long x; __CPROVER_assume(0 <= x && x < 0x3fffffffffffff00L); __CPROVER_assume(UF(bits)(x) <= size || (size == 0 && x == 0)); r->v = x; }
static inline void tmcg_mpz_wrandomb(mpz_ptr r, unsigned long size) { tmcg_mpz_srandomb(r, size); }
