/* the additional-test parameter: one of the three functions the library passes (dfcc evaluates function addresses
 * differently in a requires clause and in the instrumented body, so the choice is made here) */
static sprime_test_fn pick_test(void) { int c; return c == 0 ? notest : (c == 1 ? test7mod8 : test3mod4); }
void h_oprime(void) { mpz_ptr p; unsigned long psize, mr; tmcg_mpz_oprime(p, psize, mr); }
void h_oprime_noninc(void) { mpz_ptr p; unsigned long psize, mr; tmcg_mpz_oprime_noninc(p, psize, mr); }
void h_mr(void) { mpz_srcptr n, base, nm1; mpz_ptr y, r; tmcg_mpz_mr_witness_fast(n, base, y, nm1, r); }
void h_sprime_test(void) { mpz_ptr p, q; unsigned long qsize, mr; sprime_test_fn t = pick_test(); size_t ps; tmcg_mpz_sprime_test(p, q, qsize, t, mr, ps); }
void h_sprime_test_naive(void) { mpz_ptr p, q; unsigned long qsize, mr; sprime_test_fn t = pick_test(); size_t ps; tmcg_mpz_sprime_test_naive(p, q, qsize, t, mr, ps); }
void h_sprime_test_noninc(void) { mpz_ptr p, q; unsigned long qsize, mr; sprime_test_fn t = pick_test(); size_t ps; tmcg_mpz_sprime_test_noninc(p, q, qsize, t, mr, ps); }
void h_lprime(void) { mpz_ptr p, q, k; unsigned long ps, qs, mr; tmcg_mpz_lprime(p, q, k, ps, qs, mr); }
void h_lprime_prefix(void) { mpz_ptr p, q, k; unsigned long ps, qs, mr; tmcg_mpz_lprime_prefix(p, q, k, ps, qs, mr); }
void h_sprime(void) { mpz_ptr p, q; unsigned long qsize, mr; tmcg_mpz_sprime(p, q, qsize, mr); }
void h_smprime(void) { mpz_ptr p, q; unsigned long qsize, mr; tmcg_mpz_smprime(p, q, qsize, mr); }
void h_sprime2g(void) { mpz_ptr p, q; unsigned long qsize, mr; tmcg_mpz_sprime2g(p, q, qsize, mr); }
void h_sprime3mod4(void) { mpz_ptr p; unsigned long psize, mr; tmcg_mpz_sprime3mod4(p, psize, mr); }
void h_sprime_naive(void) { mpz_ptr p, q; unsigned long qsize, mr; tmcg_mpz_sprime_naive(p, q, qsize, mr); }
void h_smprime_naive(void) { mpz_ptr p, q; unsigned long qsize, mr; tmcg_mpz_smprime_naive(p, q, qsize, mr); }
void h_sprime_noninc(void) { mpz_ptr p, q; unsigned long qsize, mr; tmcg_mpz_sprime_noninc(p, q, qsize, mr); }
