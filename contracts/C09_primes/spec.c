//@ function tmcg_mpz_oprime
//@ contract
__CPROVER_requires(MPZ_OK(p) && mr_iterations <= 1000)
__CPROVER_assigns(V(p), g_size_arg, g_size_res, g_pv_tested, g_pv_reps, g_pv_res)
/* C09: an odd probable prime of at least the requested size, tested with the requested number of repetitions */
__CPROVER_ensures(ISPRIME(V(p)) && ODD(V(p)) && SIZE_AT_LEAST(V(p), psize) && TESTED(V(p), mr_iterations))
//@ loop 1
__CPROVER_assigns(V(p), g_size_arg, g_size_res)
__CPROVER_loop_invariant(1)
//@ loop 2
__CPROVER_assigns(V(p), g_pv_tested, g_pv_reps, g_pv_res)
__CPROVER_loop_invariant(ODD(V(p)) && V(p) >= g_size_arg && g_size_arg >= 0 && g_size_res >= psize)
//@ end

//@ function tmcg_mpz_oprime_noninc
//@ contract
__CPROVER_requires(MPZ_OK(p) && mr_iterations <= 1000)
__CPROVER_assigns(V(p), g_size_arg, g_size_res, g_pv_tested, g_pv_reps, g_pv_res)
__CPROVER_ensures(ISPRIME(V(p)) && ODD(V(p)) && SIZE_AT_LEAST(V(p), psize) && TESTED(V(p), mr_iterations))
//@ loop 1
__CPROVER_assigns(V(p), g_size_arg, g_size_res, g_pv_tested, g_pv_reps, g_pv_res)
__CPROVER_loop_invariant(1)
//@ loop 2
__CPROVER_assigns(V(p), g_size_arg, g_size_res)
__CPROVER_loop_invariant(1)
//@ end

//@ function tmcg_mpz_mr_witness_fast
//@ contract
__CPROVER_requires(MPZ_OK(n) && MPZ_OK(base) && MPZ_OK(y) && MPZ_OK(nm1) && MPZ_OK(r) && V(n) != 0)
__CPROVER_assigns(V(y), V(r))
/* "base is not a Miller-Rabin witness for n" (HAC 4.24) is reported only if n-1 = 2^s r with r odd and
 * base^r = 1, or some base^(2^j r) = n-1 (the last computed power is then left in y) */
__CPROVER_ensures(!__CPROVER_return_value ==>
   V(r) == UF(tdiv_q_2exp)(V(nm1), UF(scan1)(V(nm1), 0)) && ODD(V(r)) &&
   (V(y) == V(nm1) || (V(y) == 1 && POWM(V(base), V(r), V(n)) == 1)))
//@ loop 1
__CPROVER_assigns(j, V(y))
__CPROVER_loop_invariant(1 <= j && j <= s)
__CPROVER_decreases(s - j)
//@ end

//@ function tmcg_mpz_sprime_test
//@ contract
__CPROVER_requires(MPZ_OK(p) && MPZ_OK(q) && primes_size <= 7836 && 1 <= mr_iterations && mr_iterations <= 1000)
__CPROVER_assigns(V(p), V(q), g_size_arg, g_size_res, g_pv_tested, g_pv_reps, g_pv_res)
/* C09: the defining relation of a safe prime pair, at least the requested size, q a probable prime tested with
 * the announced number of repetitions, and the criterion of [CS00] step 4 for p (2^q = +-1 mod p; together with
 * the primality of q this is Pocklington's criterion for p = 2q+1), the additional congruence when requested */
__CPROVER_ensures(SAFE_PAIR(V(p), V(q)) && SIZE_AT_LEAST(V(q), qsize))
__CPROVER_ensures(ISPRIME(V(q)) && TESTED(V(q), mr_iterations - 1))
__CPROVER_ensures(POWM(2, V(q), V(p)) == 1 || POWM(2, V(q), V(p)) == V(p) - 1)
__CPROVER_ensures(TESTFN_OK(test, V(p)))
//@ loop 1
__CPROVER_assigns(V(q), g_size_arg, g_size_res)
__CPROVER_loop_invariant(1)
//@ loop 2
__CPROVER_assigns(i, V(tmp), V(y), __CPROVER_object_whole(R_q), __CPROVER_object_whole(R_p))
__CPROVER_loop_invariant(i <= 16)
__CPROVER_decreases(16 - i)
//@ loop 3
__CPROVER_assigns(V(p), V(q), V(pm1), V(qm1), V(y), V(tmp), __CPROVER_object_whole(R_q), __CPROVER_object_whole(R_p), g_pv_tested, g_pv_reps, g_pv_res)
__CPROVER_loop_invariant(SAFE_PAIR(V(p), V(q)) && V(pm1) == V(p) - 1 && V(qm1) == V(q) - 1 && V(a) == 2)
__CPROVER_loop_invariant(V(q) >= g_size_arg && g_size_arg >= 0 && g_size_res >= qsize)
//@ loop 4
__CPROVER_assigns(i, fail, __CPROVER_object_whole(R_q), __CPROVER_object_whole(R_p))
__CPROVER_loop_invariant(i <= 16)
__CPROVER_decreases(16 - i)
//@ loop 5
__CPROVER_assigns(i, fail)
__CPROVER_loop_invariant(i <= primes_size)
__CPROVER_decreases(primes_size - i)
//@ end

//@ function tmcg_mpz_sprime_test_naive
//@ contract
__CPROVER_requires(MPZ_OK(p) && MPZ_OK(q) && primes_size <= 7836 && 1 <= mr_iterations && mr_iterations <= 1000)
__CPROVER_assigns(V(p), V(q), g_size_arg, g_size_res, g_pv_tested, g_pv_reps, g_pv_res)
__CPROVER_ensures(SAFE_PAIR(V(p), V(q)) && SIZE_AT_LEAST(V(q), qsize))
__CPROVER_ensures(ISPRIME(V(q)) && TESTED(V(q), mr_iterations))
__CPROVER_ensures(ISPRIME(V(p)) && TESTED(V(p), mr_iterations - 1))
__CPROVER_ensures(TESTFN_OK(test, V(p)))
//@ loop 1
__CPROVER_assigns(V(q), g_size_arg, g_size_res)
__CPROVER_loop_invariant(1)
//@ loop 2
__CPROVER_assigns(V(p), V(q), g_pv_tested, g_pv_reps, g_pv_res)
__CPROVER_loop_invariant(ODD(V(q)) && V(q) >= g_size_arg && g_size_arg >= 0 && g_size_res >= qsize)
//@ loop 3
__CPROVER_assigns(i, fail)
__CPROVER_loop_invariant(15 <= i && (i <= primes_size || primes_size < 15))
//@ end

//@ function tmcg_mpz_sprime_test_noninc
//@ contract
__CPROVER_requires(MPZ_OK(p) && MPZ_OK(q) && primes_size <= 7836 && 1 <= mr_iterations && mr_iterations <= 1000)
__CPROVER_assigns(V(p), V(q), g_size_arg, g_size_res, g_pv_tested, g_pv_reps, g_pv_res)
__CPROVER_ensures(SAFE_PAIR(V(p), V(q)) && SIZE_AT_LEAST(V(q), qsize))
__CPROVER_ensures(ISPRIME(V(q)) && TESTED(V(q), mr_iterations))
__CPROVER_ensures(ISPRIME(V(p)) && TESTED(V(p), mr_iterations - 1))
__CPROVER_ensures(TESTFN_OK(test, V(p)))
//@ loop 1
__CPROVER_assigns(V(p), V(q), g_size_arg, g_size_res, g_pv_tested, g_pv_reps, g_pv_res)
__CPROVER_loop_invariant(1)
//@ loop 2
__CPROVER_assigns(V(q), g_size_arg, g_size_res)
__CPROVER_loop_invariant(1)
//@ loop 3
__CPROVER_assigns(i, fail)
__CPROVER_loop_invariant(15 <= i && (i <= primes_size || primes_size < 15))
//@ end

//@ function tmcg_mpz_lprime
//@ contract
__CPROVER_requires(MPZ_OK(p) && MPZ_OK(q) && MPZ_OK(k) && mr_iterations <= 1000 && __tmcg_thrown == 0)
__CPROVER_assigns(V(p), V(q), V(k), g_size_arg, g_size_res, g_pv_tested, g_pv_reps, g_pv_res, __tmcg_thrown)
__CPROVER_ensures(__tmcg_thrown == (qsize >= psize ? TMCG_EXC_invalid_argument : TMCG_EXC_none))
/* C09: the defining relation p = qk + 1 with k even and coprime to q, both probable primes of at least the
 * requested sizes, each tested with the requested number of repetitions */
__CPROVER_ensures(qsize < psize ==> V(p) == MUL(V(q), V(k)) + 1 && !ODD(V(k)) && UF(gcd)(V(k), V(q)) == 1)
__CPROVER_ensures(qsize < psize ==> ISPRIME(V(p)) && ISPRIME(V(q)) && BITS(V(p)) >= psize && BITS(V(q)) >= qsize)
__CPROVER_ensures(qsize < psize ==> TESTED(V(p), mr_iterations) && TESTED(V(q), mr_iterations))
//@ loop 1
__CPROVER_assigns(V(q), g_size_arg, g_size_res, g_pv_tested, g_pv_reps, g_pv_res)
__CPROVER_loop_invariant(1)
//@ loop 2
__CPROVER_assigns(V(p), V(k), V(foo), g_size_arg, g_size_res, g_pv_tested, g_pv_reps, g_pv_res)
__CPROVER_loop_invariant(TESTED(V(q), mr_iterations))
//@ loop 3
__CPROVER_assigns(V(k), g_size_arg, g_size_res)
__CPROVER_loop_invariant(1)
//@ end

//@ function tmcg_mpz_lprime_prefix
//@ contract
__CPROVER_requires(MPZ_OK(p) && MPZ_OK(q) && MPZ_OK(k) && mr_iterations <= 1000 && __tmcg_thrown == 0)
__CPROVER_assigns(V(p), V(q), V(k), g_size_arg, g_size_res, g_pv_tested, g_pv_reps, g_pv_res, __tmcg_thrown)
__CPROVER_ensures(__tmcg_thrown == (qsize >= psize ? TMCG_EXC_invalid_argument : TMCG_EXC_none))
__CPROVER_ensures(qsize < psize ==> V(p) == MUL(V(q), V(k)) + 1 && !ODD(V(k)) && UF(gcd)(V(k), V(q)) == 1)
__CPROVER_ensures(qsize < psize ==> ISPRIME(V(p)) && ISPRIME(V(q)) && BITS(V(p)) >= psize && BITS(V(q)) >= qsize)
__CPROVER_ensures(qsize < psize ==> TESTED(V(p), mr_iterations) && TESTED(V(q), mr_iterations))
//@ loop 1
__CPROVER_assigns(V(p), V(q), V(k), V(foo), g_size_arg, g_size_res, g_pv_tested, g_pv_reps, g_pv_res)
__CPROVER_loop_invariant(1)
//@ loop 2
__CPROVER_assigns(V(q), g_size_arg, g_size_res, g_pv_tested, g_pv_reps, g_pv_res)
__CPROVER_loop_invariant(1)
//@ loop 3
__CPROVER_assigns(V(k), g_size_arg, g_size_res)
__CPROVER_loop_invariant(1)
//@ end

//@ function tmcg_mpz_sprime
//@ contract
__CPROVER_requires(MPZ_OK(p) && MPZ_OK(q) && 1 <= mr_iterations && mr_iterations <= 1000)
__CPROVER_assigns(V(p), V(q), g_size_arg, g_size_res, g_pv_tested, g_pv_reps, g_pv_res)
__CPROVER_ensures(SAFE_PAIR(V(p), V(q)) && SIZE_AT_LEAST(V(q), qsize) && ISPRIME(V(q)) && TESTED(V(q), mr_iterations - 1))
__CPROVER_ensures(POWM(2, V(q), V(p)) == 1 || POWM(2, V(q), V(p)) == V(p) - 1)
//@ end

//@ function tmcg_mpz_smprime
//@ contract
__CPROVER_requires(MPZ_OK(p) && MPZ_OK(q) && 1 <= mr_iterations && mr_iterations <= 1000)
__CPROVER_assigns(V(p), V(q), g_size_arg, g_size_res, g_pv_tested, g_pv_reps, g_pv_res)
__CPROVER_ensures(SAFE_PAIR(V(p), V(q)) && SIZE_AT_LEAST(V(q), qsize) && ISPRIME(V(q)) && TESTED(V(q), mr_iterations - 1))
__CPROVER_ensures(POWM(2, V(q), V(p)) == 1 || POWM(2, V(q), V(p)) == V(p) - 1)
//@ end

//@ function tmcg_mpz_sprime2g
//@ contract
__CPROVER_requires(MPZ_OK(p) && MPZ_OK(q) && 1 <= mr_iterations && mr_iterations <= 1000)
__CPROVER_assigns(V(p), V(q), g_size_arg, g_size_res, g_pv_tested, g_pv_reps, g_pv_res)
__CPROVER_ensures(SAFE_PAIR(V(p), V(q)) && SIZE_AT_LEAST(V(q), qsize) && ISPRIME(V(q)) && TESTED(V(q), mr_iterations - 1))
__CPROVER_ensures(POWM(2, V(q), V(p)) == 1 || POWM(2, V(q), V(p)) == V(p) - 1)
/* p = 7 (mod 8): 2 generates the quadratic residues */
__CPROVER_ensures(CONGR(V(p), 7, 8))
//@ end

//@ function tmcg_mpz_sprime3mod4
//@ contract
__CPROVER_requires(MPZ_OK(p) && psize >= 2 && 1 <= mr_iterations && mr_iterations <= 1000)
__CPROVER_assigns(V(p), g_size_arg, g_size_res, g_pv_tested, g_pv_reps, g_pv_res)
/* a Blum prime factor: p = 3 (mod 4), p = 2q+1 for the odd probable prime q = (p-1)/2 of at least psize-1 bits */
__CPROVER_ensures(CONGR(V(p), 3, 4) && SAFE_PAIR(V(p), (V(p) - 1) / 2) && SIZE_AT_LEAST((V(p) - 1) / 2, psize - 1))
__CPROVER_ensures(ISPRIME((V(p) - 1) / 2) && TESTED((V(p) - 1) / 2, mr_iterations - 1))
__CPROVER_ensures(POWM(2, (V(p) - 1) / 2, V(p)) == 1 || POWM(2, (V(p) - 1) / 2, V(p)) == V(p) - 1)
//@ end

//@ function tmcg_mpz_sprime_naive
//@ contract
__CPROVER_requires(MPZ_OK(p) && MPZ_OK(q) && 1 <= mr_iterations && mr_iterations <= 1000)
__CPROVER_assigns(V(p), V(q), g_size_arg, g_size_res, g_pv_tested, g_pv_reps, g_pv_res)
__CPROVER_ensures(SAFE_PAIR(V(p), V(q)) && SIZE_AT_LEAST(V(q), qsize) && ISPRIME(V(q)) && TESTED(V(q), mr_iterations))
__CPROVER_ensures(ISPRIME(V(p)) && TESTED(V(p), mr_iterations - 1))
//@ end

//@ function tmcg_mpz_smprime_naive
//@ contract
__CPROVER_requires(MPZ_OK(p) && MPZ_OK(q) && 1 <= mr_iterations && mr_iterations <= 1000)
__CPROVER_assigns(V(p), V(q), g_size_arg, g_size_res, g_pv_tested, g_pv_reps, g_pv_res)
__CPROVER_ensures(SAFE_PAIR(V(p), V(q)) && SIZE_AT_LEAST(V(q), qsize) && ISPRIME(V(q)) && TESTED(V(q), mr_iterations))
__CPROVER_ensures(ISPRIME(V(p)) && TESTED(V(p), mr_iterations - 1))
//@ end

//@ function tmcg_mpz_sprime_noninc
//@ contract
__CPROVER_requires(MPZ_OK(p) && MPZ_OK(q) && 1 <= mr_iterations && mr_iterations <= 1000)
__CPROVER_assigns(V(p), V(q), g_size_arg, g_size_res, g_pv_tested, g_pv_reps, g_pv_res)
__CPROVER_ensures(SAFE_PAIR(V(p), V(q)) && SIZE_AT_LEAST(V(q), qsize) && ISPRIME(V(q)) && TESTED(V(q), mr_iterations))
__CPROVER_ensures(ISPRIME(V(p)) && TESTED(V(p), mr_iterations - 1))
//@ end
