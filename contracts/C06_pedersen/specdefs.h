#ifndef C06_PEDERSEN_SPECDEFS_H
#define C06_PEDERSEN_SPECDEFS_H
#define P V(self->p)
#define Q V(self->q)
#define K V(self->k)
#define H V(self->h)
#define GN (self->g.size)
#define GI(i) (self->g.cells[(i) < GCAP ? (i) : 0].v)
#define BITS(x) UF(bits)(x)
#define ISPRIME(x) (UF(prime)(x) != 0)
#define GCD(a, b) UF(gcd)((a), (b))
#define GCAP ((size_t)64)
extern size_t ghost_i, ghost_j;   /* arbitrary generator indices, never assigned */
/* ghost monitor of the order test on generator number ghost_i (hook in the mpz_powm model): what was raised to
 * what modulo what, and the result */
extern mpz_srcptr ghost_gptr; extern _Bool ghost_pw_seen; extern long ghost_pw_base, ghost_pw_exp, ghost_pw_mod, ghost_pw_res;
#define ORDER_TESTED_I (ghost_pw_seen && ghost_pw_base == GI(ghost_i) && ghost_pw_exp == Q && ghost_pw_mod == P && ghost_pw_res == 1)
#define BASE_OK (BITS(P) >= self->F_size && BITS(Q) >= self->G_size && MUL(Q, K) + 1 == P && ISPRIME(P) && ISPRIME(Q) && GCD(Q, K) == 1)
#define ELEM_OK(x) (1 < (x) && (x) < P - 1 && POWM((x), Q, P) == 1)
#define PW_STATE ghost_pw_seen, ghost_pw_base, ghost_pw_exp, ghost_pw_mod, ghost_pw_res
#endif
