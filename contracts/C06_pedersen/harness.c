void h_CheckGroup(void) { PedersenCommitmentScheme *self; _Bool r = PedersenCommitmentScheme__CheckGroup(self);
  __CPROVER_assert(!r, "REACHABILITY-CANARY (must fail): an accepted scheme exists"); }
