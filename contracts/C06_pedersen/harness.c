void h_CheckGroup(void) { PedersenCommitmentScheme *self; _Bool r = PedersenCommitmentScheme__CheckGroup(self);
  __CPROVER_assert(!r, "REACHABILITY-CANARY (must fail): an accepted scheme exists"); }
void h_TestMembership(void) { PedersenCommitmentScheme *self; mpz_srcptr c; PedersenCommitmentScheme__TestMembership(self, c); }
