#include "specdefs.h"
size_t ghost_i, ghost_j;
mpz_srcptr ghost_gptr; _Bool ghost_pw_seen; long ghost_pw_base, ghost_pw_exp, ghost_pw_mod, ghost_pw_res;
void verif_powm_hook(long x, mpz_srcptr b, mpz_srcptr e, mpz_srcptr m)
{ if (b == ghost_gptr) { ghost_pw_seen = 1; ghost_pw_base = b->v; ghost_pw_exp = e->v; ghost_pw_mod = m->v; ghost_pw_res = x; } }
