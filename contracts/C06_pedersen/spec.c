//@ function PedersenCommitmentScheme__CheckGroup
//@ contract
__CPROVER_requires(__CPROVER_is_fresh(self, sizeof(*self)))
__CPROVER_requires(self->g.cap == GCAP && self->g.size <= GCAP && __CPROVER_is_fresh(self->g.data, GCAP * sizeof(mpz_ptr)))
/* every generator slot owns its integer object (models/gmp_abs.h, VEC_MPZ_CELLS) */
__CPROVER_requires(__CPROVER_is_fresh(self->g.cells, GCAP * sizeof(__mpz_struct)))
__CPROVER_requires(WORD_OK(P) && WORD_OK(MUL(Q, K)))
__CPROVER_requires(!ghost_pw_seen && ghost_gptr == &self->g.cells[ghost_i < GCAP ? ghost_i : 0])
__CPROVER_assigns(PW_STATE, __CPROVER_object_whole(self->g.data))
/* C06: accepted only if sizes, p = kq+1, primality and coprimality hold, h and every generator g_i are non-trivial
 * elements of order q in 1 < x < p-1, every g_i differs from h, and the g_i are pairwise different */
__CPROVER_ensures(__CPROVER_return_value ==> (BASE_OK && ELEM_OK(H)))
/* (the order test of g_i is stated through the monitor: mpz_powm(., g_i, q, p) was evaluated and gave 1) */
__CPROVER_ensures((__CPROVER_return_value && ghost_i < GN) ==> (1 < GI(ghost_i) && GI(ghost_i) < P - 1 && ORDER_TESTED_I && GI(ghost_i) != H))
__CPROVER_ensures((__CPROVER_return_value && ghost_i < ghost_j && ghost_j < GN) ==> GI(ghost_i) != GI(ghost_j))
/* and a scheme without generator vector is accepted exactly under the scalar conditions */
__CPROVER_ensures(GN == 0 ==> __CPROVER_return_value == (BASE_OK && ELEM_OK(H)))
//@ loop 1
__CPROVER_assigns(i, V(foo), PW_STATE, __CPROVER_object_whole(self->g.data))
__CPROVER_loop_invariant(i <= GN && (ghost_i < i ==> ORDER_TESTED_I) && ((ghost_i >= i && ghost_i < GN) ==> !ghost_pw_seen || ghost_pw_base == GI(ghost_i)))
__CPROVER_decreases(GN - i)
//@ loop 2
__CPROVER_assigns(i, __CPROVER_object_whole(self->g.data))
__CPROVER_loop_invariant(i <= GN && V(foo) == P - 1)
__CPROVER_loop_invariant(ghost_i < i ==> (1 < GI(ghost_i) && GI(ghost_i) < P - 1 && GI(ghost_i) != H))
__CPROVER_loop_invariant((ghost_i < i && ghost_i < ghost_j && ghost_j < GN) ==> GI(ghost_i) != GI(ghost_j))
__CPROVER_decreases(GN - i)
//@ loop 3
__CPROVER_assigns(j, __CPROVER_object_whole(self->g.data))
__CPROVER_loop_invariant(i < j && j <= GN)
__CPROVER_loop_invariant((ghost_i == i && ghost_i < ghost_j && ghost_j < j) ==> GI(ghost_i) != GI(ghost_j))
__CPROVER_decreases(GN - j)
//@ end

//@ function PedersenCommitmentScheme__TestMembership
//@ contract
__CPROVER_requires(__CPROVER_is_fresh(self, sizeof(*self)) && MPZ_OK(c))
__CPROVER_assigns(PW_STATE)   /* ghost monitor only (a stricter test may call mpz_powm) */
/* C05: a transmitted commitment outside 1..p-1 is refused, not silently reduced (this test is the only guard of
 * the commitments of the Groth arguments before they are multiplied modulo p) */
__CPROVER_ensures(__CPROVER_return_value ==> (0 < V(c) && V(c) < P))
/* and every member of the order-q subgroup in that range is accepted (the test may be stricter than the range) */
__CPROVER_ensures((0 < V(c) && V(c) < P && POWM(V(c), Q, P) == 1) ==> __CPROVER_return_value)
//@ end
