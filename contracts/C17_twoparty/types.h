VECS_DECL(vec_vec_mpz, vec_mpz)
