#define P V(self->p)
#define Q V(self->q)
#define MULMOD(a, b, m) MOD(MUL((a), (b)), (m))
/* residue sampler: arbitrary residue; the first four draws are logged */
size_t dr_n; long dr[4];
static inline void tmcg_mpz_srandomm(mpz_ptr r, mpz_srcptr m)
{ long v = (long)nondet_ulong(); __CPROVER_assume(0 <= v && (m->v > 0 ==> v < m->v)); if (dr_n < 4) dr[dr_n] = v; __CPROVER_assume(dr_n + 1 > dr_n); dr_n = dr_n + 1; r->v = v; }
static inline unsigned long tmcg_mpz_wrandom_ui(void) { return nondet_ulong(); }
/* fixed-base power: term-level model of the contract proved in C09_fpowm_abs + the bounded value result (C09_exact):
 * the plain modular power when base and table agree; may refuse with a standard exception */
static inline void tmcg_mpz_fspowm(mpz_t *tab, mpz_ptr res, mpz_srcptr m, mpz_srcptr x, mpz_srcptr p)
{
  if (V(m) != V(tab[0]) || UF(bits)(V(x)) > (unsigned long)TMCG_MAX_FPOWM_T) { __tmcg_thrown = TMCG_EXC_invalid_argument; return; }
  if (nondet_bool()) { __tmcg_thrown = TMCG_EXC_runtime_error; return; }
  res->v = POWM(V(m), V(x), V(p));
}
