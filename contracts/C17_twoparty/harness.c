/* The two-party coin flip has n == 2 (asserted by the code), so every loop runs exactly twice: the harness below is
 * loop-bounded by construction and the unwinding assertions prove it -- a complete check over all inputs. */
static mpz_ptr new_mpz(void) { mpz_ptr p = (mpz_ptr)__verif_new(sizeof(__mpz_struct)); return p; }
static void mk_matrix(vec_vec_mpz *m)
{
  m->data = (vec_mpz *)__verif_new_array(sizeof(vec_mpz), 2); m->size = 2; m->cap = 2;
  for (int j = 0; j < 2; j++) { m->data[j].data = (mpz_ptr *)__verif_new_array(sizeof(mpz_ptr), 2); m->data[j].size = 1; m->data[j].cap = 2; m->data[j].data[0] = new_mpz(); }
}
void h_flip2(void)
{
  JareckiLysyanskayaRVSS *rvss = (JareckiLysyanskayaRVSS *)__verif_new(sizeof(JareckiLysyanskayaRVSS));
  JareckiLysyanskayaEDCF *self = (JareckiLysyanskayaEDCF *)__verif_new(sizeof(JareckiLysyanskayaEDCF));
  self->rvss = rvss; self->n = 2; rvss->n = 2;
  /* both objects share the group; tables belong to g and h (class invariant after construction) */
  rvss->p->v = self->p->v; rvss->q->v = self->q->v; rvss->g->v = self->g->v; rvss->h->v = self->h->v;
  self->fpowm_table_g = (mpz_t *)__verif_new_array(sizeof(mpz_t), 4); self->fpowm_table_h = (mpz_t *)__verif_new_array(sizeof(mpz_t), 4);
  rvss->fpowm_table_g = self->fpowm_table_g; rvss->fpowm_table_h = self->fpowm_table_h;
  __CPROVER_assume(V(self->fpowm_table_g[0]) == V(self->g) && V(self->fpowm_table_h[0]) == V(self->h) && P > 1 && Q > 1 && WORD_OK(Q));
  mk_matrix(&rvss->C_ik);
  size_t i; __CPROVER_assume(i < 2); size_t j = 1 - i;
  mpz_ptr a = new_mpz();
  ios_t in, out, err; ios_t__ctor_0(&in); ios_t__ctor_0(&out); ios_t__ctor_0(&err);
  in.tok = (long *)__verif_new_array(sizeof(long), IOS_MAXTOK); in.ntok = nondet_ulong(); __CPROVER_assume(in.ntok <= 6); in.eof_after_last = nondet_bool();
  for (int k = 0; k < 6; k++) __CPROVER_assume(WORD_OK(in.tok[k]));
  __CPROVER_assume(dr_n == 0 && ev_n == 0 && __tmcg_thrown == 0);
  __CPROVER_assume(ghost_ik == 0 && ghost_ok == 1);   /* the peer's commitment is input token 0, the own share is output integer 1 */
  _Bool ok = JareckiLysyanskayaEDCF__Flip_twoparty(self, i, a, &in, &out, &err, 0);
  __CPROVER_assert(__tmcg_thrown == 0 || __tmcg_thrown == TMCG_EXC_runtime_error || __tmcg_thrown == TMCG_EXC_invalid_argument, "C12: only standard exceptions");
  /* C17: no participant reveals its share before it has received the other participant's commitment */
  if (out.nput >= 2) __CPROVER_assert(in.pos >= 1 && in.ikev < out.okev, "C17: the own share is sent only after the peer's commitment was received");
  if (ok)
  {
    long C = in.tok[0], aj = in.tok[1], hj = in.tok[2];
    __CPROVER_assert(__tmcg_thrown == 0 && in.pos == 3 && out.nput == 3, "C17: one commitment and one opening in each direction");
    __CPROVER_assert(0 < C && C < P && POWM(C, Q, P) == 1, "C17: the peer's commitment is a group element");
    __CPROVER_assert((aj < 0 ? -aj : aj) < Q && (hj < 0 ? -hj : hj) < Q, "C17: the peer's opening values are in range");
    __CPROVER_assert(MULMOD(POWM(V(self->g), aj, P), POWM(V(self->h), hj, P), P) == MULMOD(1, C, P), "C17: the peer's opening matches its earlier commitment");
    long own = dr[0];
    __CPROVER_assert(V(a) == (i == 0 ? MOD(MOD(own, Q) + aj, Q) : MOD(MOD(aj, Q) + own, Q)), "C17: the coin is the sum modulo q of the two shares");
    __CPROVER_assert(dr_n == 2, "C17: two fresh residues (share and randomiser)");
    __CPROVER_assert(!(i == 1 && aj == 5), "REACHABILITY-CANARY (must fail): an accepting run of party 1 with peer share 5 exists");
  }
}
