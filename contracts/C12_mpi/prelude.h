#include "specdefs.h"
typedef struct CallasDonnerhackeFinneyShawThayerRFC4880 CallasDonnerhackeFinneyShawThayerRFC4880;
/* libgcrypt MPI entry points: opaque handles; scan may fail */
enum { GCRYMPI_FMT_USG = 5 };
unsigned long nondet_ulong(void); _Bool nondet_bool(void);
static inline void gcry_mpi_release(gcry_mpi_t a) { (void)a; }
static inline gcry_error_t gcry_mpi_scan(gcry_mpi_t *ret, int fmt, const void *buf, size_t len, size_t *n)
{ (void)fmt; (void)n; __CPROVER_assert(__CPROVER_r_ok(buf, len), "gcry_mpi_scan: buffer holds len octets"); *ret = (gcry_mpi_t)nondet_ulong(); return nondet_bool() ? 1 : 0; }
static inline void *gcry_malloc_secure(size_t n) { if (nondet_bool()) return 0; return malloc(n); }
static inline void gcry_free(void *p) { free(p); }
void *memset(void *s, int c, size_t n);
