void h_mpi(void) { vec_u8 *in; gcry_mpi_t *out; size_t *sum; PacketMPIDecode(in, out, sum); }
void h_mpi_secure(void) { vec_u8 *in; gcry_mpi_t *out; size_t *sum; PacketMPIDecode_secure(in, out, sum); }
void h_string(void) { vec_u8 *in; str_t *out; PacketStringDecode(in, out); }
void h_mpi2(void) { vec_u8 *in; gcry_mpi_t *out; PacketMPIDecode2(in, out); }
void h_mpi2_secure(void) { vec_u8 *in; gcry_mpi_t *out; PacketMPIDecode2_secure(in, out); }
