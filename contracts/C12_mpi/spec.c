//@ function PacketMPIDecode
//@ contract
__CPROVER_requires(MVEC_OK(in) && __CPROVER_is_fresh(out, sizeof(*out)) && __CPROVER_is_fresh(sum, sizeof(*sum)))
__CPROVER_assigns(*out, *sum)
/* C12/C19: an MPI is a two-octet bit count followed by ceil(bits/8) octets; short input is refused (0), and
 * exactly the announced octets are consumed */
__CPROVER_ensures(__CPROVER_return_value == 0 || (in->size >= 2 && __CPROVER_return_value == 2 + MPILEN(in) && in->size >= __CPROVER_return_value))
__CPROVER_ensures(in->size < 2 ==> __CPROVER_return_value == 0)
__CPROVER_ensures(__CPROVER_return_value == 0 || __CPROVER_return_value >= 2)
__CPROVER_ensures(in->size >= 2 && in->size < 2 + MPILEN(in) ==> __CPROVER_return_value == 0)
//@ loop 1
__CPROVER_assigns(i, *sum, __CPROVER_object_whole(buffer))
__CPROVER_loop_invariant(i <= buflen && buflen == MPILEN(in) && in->size >= 2 + buflen)
__CPROVER_decreases(buflen - i)
//@ end

//@ function PacketMPIDecode_secure
//@ contract
__CPROVER_requires(MVEC_OK(in) && __CPROVER_is_fresh(out, sizeof(*out)) && __CPROVER_is_fresh(sum, sizeof(*sum)))
__CPROVER_assigns(*out, *sum)
__CPROVER_ensures(__CPROVER_return_value == 0 || (in->size >= 2 && __CPROVER_return_value == 2 + MPILEN(in) && in->size >= __CPROVER_return_value))
__CPROVER_ensures(in->size < 2 ==> __CPROVER_return_value == 0)
__CPROVER_ensures(__CPROVER_return_value == 0 || __CPROVER_return_value >= 2)
//@ loop 1
__CPROVER_assigns(i, *sum, __CPROVER_object_whole(buffer))
__CPROVER_loop_invariant(i <= buflen && buflen == MPILEN(in) && in->size >= 2 + buflen)
__CPROVER_decreases(buflen - i)
//@ end

//@ function PacketStringDecode
//@ contract
__CPROVER_requires(MVEC_OK(in) && STR_OK(out))
__CPROVER_assigns(out->size; out->data != 0: __CPROVER_object_whole(out->data))
/* a string is a new-format length followed by that many octets; partial and indeterminate lengths, empty strings
 * and short input are refused; the consumed octet count is header + length */
__CPROVER_ensures(__CPROVER_return_value == 0 || (__CPROVER_return_value <= in->size && STR_GROWN(in, out, __CPROVER_return_value, __CPROVER_old(out->size))))
__CPROVER_ensures(in->size < 1 ==> __CPROVER_return_value == 0)
//@ loop 1
__CPROVER_assigns(i, out->size, __CPROVER_object_whole(out->data))
__CPROVER_loop_invariant(i <= len && out->size == __CPROVER_loop_entry(out->size) + i && (size_t)len + headlen <= in->size && headlen <= 5)
__CPROVER_decreases(len - i)
//@ end

//@ function PacketMPIDecode2
//@ contract
__CPROVER_requires(MVEC_OK(in) && __CPROVER_is_fresh(out, sizeof(*out)))
__CPROVER_assigns(*out)
__CPROVER_ensures(__CPROVER_return_value == 0 || (in->size >= 2 && __CPROVER_return_value == 2 + MPILEN(in) && in->size >= __CPROVER_return_value))
__CPROVER_ensures(in->size < 2 ==> __CPROVER_return_value == 0)
__CPROVER_ensures(__CPROVER_return_value == 0 || __CPROVER_return_value >= 2)
//@ end

//@ function PacketMPIDecode2_secure
//@ contract
__CPROVER_requires(MVEC_OK(in) && __CPROVER_is_fresh(out, sizeof(*out)))
__CPROVER_assigns(*out)
__CPROVER_ensures(__CPROVER_return_value == 0 || (in->size >= 2 && __CPROVER_return_value == 2 + MPILEN(in) && in->size >= __CPROVER_return_value))
__CPROVER_ensures(in->size < 2 ==> __CPROVER_return_value == 0)
__CPROVER_ensures(__CPROVER_return_value == 0 || __CPROVER_return_value >= 2)
//@ end
