#ifndef C12_MPI_SPECDEFS_H
#define C12_MPI_SPECDEFS_H
#ifndef MVCAP
#define MVCAP ((size_t)16384)   /* covers the longest MPI (65535 bits = 8192 octets + 2) */
#endif
#define MVEC_OK(v) (__CPROVER_is_fresh((v), sizeof(*(v))) && (v)->cap == MVCAP && (v)->size <= MVCAP && __CPROVER_is_fresh((v)->data, MVCAP))
#define STR_OK(s) (__CPROVER_is_fresh((s), sizeof(*(s))) && (s)->cap == 2 * MVCAP && (s)->size <= MVCAP && __CPROVER_is_fresh((s)->data, 2 * MVCAP))
#define MPILEN(in) ((((size_t)(in)->data[0] << 8) + (in)->data[1] + 7) / 8)
#endif
