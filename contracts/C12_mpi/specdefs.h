#ifndef C12_MPI_SPECDEFS_H
#define C12_MPI_SPECDEFS_H
#ifndef MVCAP
#define MVCAP ((size_t)16384)   /* covers the longest MPI (65535 bits = 8192 octets + 2) */
#endif
#ifdef VEC_U8_NOCONTENT
/* importing groups that use the content-free octet vector (no data object): the clauses about the announced length
 * are read with MPILEN := return value - 2, i.e. weakened to "0, or at least 2 and at most in.size()" */
#define MVEC_OK(v) (__CPROVER_is_fresh((v), sizeof(*(v))) && (v)->cap == MVCAP && (v)->size <= MVCAP)
#define MPILEN(in) (__CPROVER_return_value - 2)
/* strings: the header length (1, 2 or 5) depends on the first octet; content-free callers only learn the bracket */
#define STR_OK(s) (__CPROVER_is_fresh((s), sizeof(*(s))))
#define STR_GROWN(in, out, ret, oldsize) ((out)->size >= (oldsize) && (out)->size <= (oldsize) + (ret))
#else
#define MVEC_OK(v) (__CPROVER_is_fresh((v), sizeof(*(v))) && (v)->cap == MVCAP && (v)->size <= MVCAP && __CPROVER_is_fresh((v)->data, MVCAP))
#define MPILEN(in) ((((size_t)(in)->data[0] << 8) + (in)->data[1] + 7) / 8)
#define STR_OK(s) (__CPROVER_is_fresh((s), sizeof(*(s))) && (s)->cap == 2 * MVCAP && (s)->size <= MVCAP && __CPROVER_is_fresh((s)->data, 2 * MVCAP))
#define STR_GROWN(in, out, ret, oldsize) ((out)->size == (oldsize) + ((ret) - ((in)->data[0] < 192 ? 1 : ((in)->data[0] < 224 ? 2 : 5))))
#endif
#endif
