#ifndef C01_VTMF_SPECDEFS_H
#define C01_VTMF_SPECDEFS_H
#include "../C02_stack/specdefs.h"
#define SP V(self->p)
#define SG V(self->g)
#define SH V(self->h)
#define SD V(self->d)
#define TABLES_OK(v) (__CPROVER_is_fresh((v)->fpowm_table_g, TMCG_MAX_FPOWM_T * sizeof(mpz_t)) && \
   __CPROVER_is_fresh((v)->fpowm_table_h, TMCG_MAX_FPOWM_T * sizeof(mpz_t)) && \
   V((v)->fpowm_table_g[0]) == V((v)->g) && V((v)->fpowm_table_h[0]) == V((v)->h) && V((v)->p) > 1)
#ifndef MAXTYPES
#define MAXTYPES 1024   /* 2^TMCG_MAX_TYPEBITS; the finder variant uses 4 */
#endif
/* ghost_idx[t] names the element g^t that encodes card type t (Skolem array, never assigned; tied to the
 * term POWM(g, t, p) by the contract of IndexElement) */
long ghost_idx[MAXTYPES];
size_t ghost_t;
/* data invariant of the lazily filled type table of SchindelhauerTMCG */
#define MSPACE_OK(self) (__CPROVER_is_fresh((self)->message_space, MAXTYPES * sizeof(mpz_t)) && (self)->TMCG_MaxCardType <= MAXTYPES && \
   __CPROVER_forall { size_t mt; (mt < MAXTYPES) ==> (V((self)->message_space[mt]) == 0 || V((self)->message_space[mt]) == ghost_idx[mt]) })
#endif
