//@ function BarnettSmartVTMF_dlog__IndexElement
//@ contract
__CPROVER_requires(__CPROVER_is_fresh(self, sizeof(*self)) && TABLES_OK(self) && MPZ_OK(a) && __tmcg_thrown == 0)
__CPROVER_requires(index < MAXTYPES)
#ifdef ENFORCE_BarnettSmartVTMF_dlog__IndexElement
/* fact of the integers, instantiated: a value below 2^10 has at most 64 (indeed 10) binary digits */
__CPROVER_requires(UF(bits)((long)index) <= 64)
#endif
__CPROVER_assigns(V(a), __tmcg_thrown)
/* the element that encodes card type `index` is g^index mod p; ghost_idx[] is its name in table invariants */
__CPROVER_ensures(__tmcg_thrown == 0 && V(a) == POWM(SG, (long)index, SP))
#ifdef ASSUME_IDX_NAME
__CPROVER_ensures(V(a) == ghost_idx[index])
#endif
//@ end

//@ function BarnettSmartVTMF_dlog__VerifiableRemaskingProtocol_Remask
//@ contract
__CPROVER_requires(__CPROVER_is_fresh(self, sizeof(*self)) && TABLES_OK(self) && __tmcg_thrown == 0)
__CPROVER_requires(MPZ_OK(c_1) && MPZ_OK(c_2) && MPZ_OK(c__1) && MPZ_OK(c__2) && MPZ_OK(r) && WORD_OK(V(r)))
__CPROVER_requires(UF(bits)(V(r)) <= (unsigned long)TMCG_MAX_FPOWM_T)
__CPROVER_assigns(V(c__1), V(c__2), __tmcg_thrown)
/* C01: re-masking multiplies the components by g^r and h^r -- the same terms with timing protection on and off */
__CPROVER_ensures(__tmcg_thrown == 0 ==> V(c__1) == MULMOD(POWM(SG, V(r), SP), V(c_1), SP) && V(c__2) == MULMOD(POWM(SH, V(r), SP), V(c_2), SP))
__CPROVER_ensures(__tmcg_thrown == 0 || __tmcg_thrown == TMCG_EXC_runtime_error)
//@ end

//@ function SchindelhauerTMCG__TMCG_MaskCard
//@ contract
__CPROVER_requires(__CPROVER_is_fresh(self, sizeof(*self)) && __CPROVER_is_fresh(vtmf, sizeof(*vtmf)) && TABLES_OK(vtmf) && __tmcg_thrown == 0)
__CPROVER_requires(__CPROVER_is_fresh(c, sizeof(*c)) && __CPROVER_is_fresh(cc, sizeof(*cc)) && __CPROVER_is_fresh(cs, sizeof(*cs)) && WORD_OK(V(cs->r)))
__CPROVER_requires(UF(bits)(V(cs->r)) <= (unsigned long)TMCG_MAX_FPOWM_T)
__CPROVER_assigns(V(cc->c_1), V(cc->c_2), __tmcg_thrown)
/* the term-level effect assumed by the stack-level groups (C02_stack prelude): cc = (c1 * g^r, c2 * h^r) */
__CPROVER_ensures(__tmcg_thrown == 0 ==> V(cc->c_1) == MASK1(V(c->c_1), V(cs->r)) && V(cc->c_2) == MASK2(V(c->c_2), V(cs->r)))
__CPROVER_ensures(__tmcg_thrown == 0 || __tmcg_thrown == TMCG_EXC_runtime_error)
//@ end

//@ function SchindelhauerTMCG__TMCG_CreateOpenCard
//@ contract
__CPROVER_requires(__CPROVER_is_fresh(self, sizeof(*self)) && MSPACE_OK(self) && __CPROVER_is_fresh(c, sizeof(*c)) && __CPROVER_is_fresh(vtmf, sizeof(*vtmf)) && TABLES_OK(vtmf))
__CPROVER_requires(type < self->TMCG_MaxCardType && __tmcg_thrown == 0)
__CPROVER_assigns(V(c->c_1), V(c->c_2), V(self->message_space[type]), __tmcg_thrown)
/* C01: an open card of type T is (1, g^T) */
__CPROVER_ensures(__tmcg_thrown == 0 && V(c->c_1) == 1 && V(c->c_2) == ghost_idx[type])
__CPROVER_ensures(V(self->message_space[type]) == ghost_idx[type])
//@ end

//@ function BarnettSmartVTMF_dlog__VerifiableDecryptionProtocol_Verify_Finalize
//@ contract
__CPROVER_requires(__CPROVER_is_fresh(self, sizeof(*self)) && MPZ_OK(c_2) && MPZ_OK(m) && SP != 0)
/* the function asserts it: d, a product of verified group elements, is invertible */
__CPROVER_requires(UF(invertible)(SD, SP))
__CPROVER_assigns(V(m))
/* C01: m = c_2 / d with d the product of all decryption shares */
__CPROVER_ensures(V(m) == MULMOD(UF(invert)(SD, SP), V(c_2), SP))
//@ end

//@ function SchindelhauerTMCG__TMCG_TypeOfCard
//@ contract
__CPROVER_requires(__CPROVER_is_fresh(self, sizeof(*self)) && MSPACE_OK(self) && __CPROVER_is_fresh(c, sizeof(*c)) && __CPROVER_is_fresh(vtmf, sizeof(*vtmf)) && TABLES_OK(vtmf))
__CPROVER_requires(__tmcg_thrown == 0 && V(vtmf->p) != 0 && UF(invertible)(V(vtmf->d), V(vtmf->p)))
#ifdef ENFORCE_SchindelhauerTMCG__TMCG_TypeOfCard
/* ghost_fin names the decrypted message m = c_2 / d (term of Verify_Finalize) */
__CPROVER_requires(ghost_fin == MULMOD(UF(invert)(V(vtmf->d), V(vtmf->p)), V(c->c_2), V(vtmf->p)))
#endif
__CPROVER_assigns(__CPROVER_object_whole(self->message_space), __tmcg_thrown)
/* C01: the opened type is the FIRST t below 2^w whose encoding g^t equals the decrypted message m = c_2 / d,
 * and exactly the 'invalid type' sentinel 2^w when there is none (ghost_t arbitrary, ghost_fin names m) */
__CPROVER_ensures(__CPROVER_return_value <= self->TMCG_MaxCardType)
__CPROVER_ensures(__CPROVER_return_value < self->TMCG_MaxCardType ==> ghost_fin == ghost_idx[__CPROVER_return_value])
__CPROVER_ensures(ghost_t < __CPROVER_return_value && ghost_t < self->TMCG_MaxCardType ==> ghost_fin != ghost_idx[ghost_t])
/* the table keeps its invariant */
__CPROVER_ensures(ghost_t < MAXTYPES ==> V(self->message_space[ghost_t]) == 0 || V(self->message_space[ghost_t]) == ghost_idx[ghost_t])
//@ loop 1
__CPROVER_assigns(t, type, __CPROVER_object_whole(self->message_space), __tmcg_thrown)
__CPROVER_loop_invariant(t <= self->TMCG_MaxCardType && type == self->TMCG_MaxCardType && __tmcg_thrown == 0 && V(m) == ghost_fin)
__CPROVER_loop_invariant(__CPROVER_forall { size_t li; (li < MAXTYPES) ==> (V(self->message_space[li]) == 0 || V(self->message_space[li]) == ghost_idx[li]) })
__CPROVER_loop_invariant(__CPROVER_forall { size_t lj; (lj < MAXTYPES) ==> (lj < t ==> ghost_fin != ghost_idx[lj]) })
__CPROVER_decreases(self->TMCG_MaxCardType - t)
//@ end
