void h_IndexElement(void) { BarnettSmartVTMF_dlog *self; mpz_ptr a; size_t i; BarnettSmartVTMF_dlog__IndexElement(self, a, i); }
void h_Remask(void) { BarnettSmartVTMF_dlog *self; mpz_srcptr a, b, r; mpz_ptr c, d; _Bool t; BarnettSmartVTMF_dlog__VerifiableRemaskingProtocol_Remask(self, a, b, c, d, r, t); }
void h_MaskCard(void) { SchindelhauerTMCG *self; VTMF_Card *c, *cc; VTMF_CardSecret *cs; BarnettSmartVTMF_dlog *v; _Bool t; SchindelhauerTMCG__TMCG_MaskCard(self, c, cc, cs, v, t); }
void h_CreateOpenCard(void) { SchindelhauerTMCG *self; VTMF_Card *c; BarnettSmartVTMF_dlog *v; size_t t; SchindelhauerTMCG__TMCG_CreateOpenCard(self, c, v, t); }
void h_Finalize(void) { BarnettSmartVTMF_dlog *self; mpz_srcptr c2; mpz_ptr m; BarnettSmartVTMF_dlog__VerifiableDecryptionProtocol_Verify_Finalize(self, c2, m); }
void h_TypeOfCard(void) { SchindelhauerTMCG *self; VTMF_Card *c; BarnettSmartVTMF_dlog *v; SchindelhauerTMCG__TMCG_TypeOfCard(self, c, v); }
