#include "specdefs.h"
long ghost_fin;   /* name of the decrypted message in TMCG_TypeOfCard */
