#!/usr/bin/env python3
"""cxx2c -- mechanical, type-directed extraction of LibTMCG functions to C.

Input: the real translation unit under /repo/src, parsed on every run by
clang 14 (`-Xclang -ast-dump=json -ast-dump-filter=<qualified name>`).  The
function body is re-emitted from clang's typed AST as C text; nothing is
re-typed by hand.  What the emission changes or drops is listed in
DESIGN.md section 2.1 (rules E1..E14); every construct outside the subset
raises ExtractionError (driver exit 2), never a silent pass.

The contract text (function contract, loop contracts by loop ordinal) is
spliced in from /verif/contracts/*.spec.
"""
import json
import os
import re
import subprocess
import hashlib

REPO = os.environ.get('VERIF_REPO', '/repo')
VERIF = os.path.dirname(os.path.dirname(os.path.abspath(__file__)))
CXXINC = os.path.join(VERIF, 'models', 'cxxinc')
CACHE = os.path.join(VERIF, 'build', 'astcache')


class ExtractionError(Exception):
    pass


# --------------------------------------------------------------------------
# clang front end
# --------------------------------------------------------------------------

def _tree_digest():
    """Digest of every source/header the parse can see (cache key)."""
    h = hashlib.sha256()
    src = os.path.join(REPO, 'src')
    for fn in sorted(os.listdir(src)):
        if fn.endswith(('.cc', '.hh', '.h')):
            with open(os.path.join(src, fn), 'rb') as f:
                h.update(fn.encode())
                h.update(f.read())
    for fn in sorted(os.listdir(CXXINC)):
        with open(os.path.join(CXXINC, fn), 'rb') as f:
            h.update(f.read())
    cfg = os.path.join(REPO, 'libTMCG_config.h')
    if os.path.exists(cfg):
        with open(cfg, 'rb') as f:
            h.update(f.read())
    return h.hexdigest()[:24]


_DIGEST = None


def clang_dump(relfile, filt, extra_defs=()):
    global _DIGEST
    if _DIGEST is None:
        _DIGEST = _tree_digest()
    os.makedirs(CACHE, exist_ok=True)
    key = hashlib.sha256((_DIGEST + relfile + filt + ' '.join(extra_defs)).encode()).hexdigest()[:24]
    cpath = os.path.join(CACHE, key + '.json')
    if os.path.exists(cpath):
        with open(cpath) as f:
            return json.load(f)
    cmd = ['clang++-14', '-std=c++14', '-fsyntax-only', '-w',
           '-I' + CXXINC, '-I' + REPO, '-I' + os.path.join(REPO, 'src'),
           '-DHAVE_CONFIG_H'] + list(extra_defs) + [
           '-Xclang', '-ast-dump=json', '-Xclang', '-ast-dump-filter=' + filt,
           os.path.join(REPO, relfile)]
    r = subprocess.run(cmd, capture_output=True, text=True)
    if r.returncode != 0:
        raise ExtractionError('clang failed on %s: %s' % (relfile, r.stderr[-2000:]))
    s = r.stdout
    dec = json.JSONDecoder()
    i = 0
    docs = []
    n = len(s)
    while i < n:
        while i < n and s[i] in ' \n\r\t':
            i += 1
        if i >= n:
            break
        if s[i] != '{':
            j = s.find('\n', i)
            i = j + 1 if j >= 0 else n
            continue
        o, j = dec.raw_decode(s, i)
        docs.append(o)
        i = j
    tmp = cpath + '.%d.tmp' % os.getpid()
    with open(tmp, 'w') as f:
        json.dump(docs, f)
    os.replace(tmp, cpath)
    return docs


def has_body(d):
    return any(c.get('kind') == 'CompoundStmt' for c in d.get('inner', []))


# --------------------------------------------------------------------------
# types
# --------------------------------------------------------------------------

BUILTIN = {
    'void': 'void', 'bool': '_Bool', 'char': 'char', 'signed char': 'signed char',
    'unsigned char': 'unsigned char', 'short': 'short', 'unsigned short': 'unsigned short',
    'int': 'int', 'unsigned int': 'unsigned int', 'long': 'long',
    'unsigned long': 'unsigned long', 'long long': 'long long',
    'unsigned long long': 'unsigned long long', 'size_t': 'size_t',
    'uint8_t': 'uint8_t', 'uint16_t': 'uint16_t', 'uint32_t': 'uint32_t',
    'uint64_t': 'uint64_t', 'int32_t': 'int32_t', 'int64_t': 'int64_t',
    'time_t': 'time_t', 'unsigned': 'unsigned int', 'ssize_t': 'ssize_t',
    'double': 'double',
    'mpz_t': 'mpz_t', 'mpz_ptr': 'mpz_ptr', 'mpz_srcptr': 'mpz_srcptr',
    '__mpz_struct': '__mpz_struct', 'MP_INT': '__mpz_struct',
    'gcry_mpi_t': 'gcry_mpi_t', 'gcry_error_t': 'gcry_error_t',
    'tmcg_openpgp_byte_t': 'tmcg_openpgp_byte_t',
    'enum gcry_random_level': 'enum gcry_random_level',
    'gcry_random_level': 'enum gcry_random_level',
    'std::vector::size_type': 'size_t', 'std::size_t': 'size_t',
    'std::string::size_type': 'size_t', 'std::basic_string::size_type': 'size_t',
    'ptrdiff_t': 'long', 'std::streamsize': 'long',
}

SCALAR_C = set(BUILTIN.values()) - {'void', 'mpz_t', '__mpz_struct'}

# Normalisations applied to clang type spellings before the table lookup.
NORMALISE = [
    (r'\bclass ', ''), (r'\bstruct ', ''),
    (r'__gnu_cxx::__alloc_traits<std::allocator<(.+)>, \1>::value_type', r'\1'),
    (r'^std::vector<(.+)>::(value_type|reference|const_reference)$', r'\1'),
    (r',\s*std::allocator<[^<>]*(<[^<>]*>)?[^<>]*>\s*', ''),
    (r'std::__cxx11::', 'std::'),
    (r'std::basic_string<char(, std::char_traits<char>)?>', 'std::string'),
    (r'std::basic_(i|o|)stream<char(, std::char_traits<char>)?>', r'std::\1stream'),
    (r'std::basic_(i|o|)stringstream<char(, std::char_traits<char>)?>', r'std::\1stringstream'),
    (r'\bsize_t\b', 'unsigned long'),
    (r'\btmcg_openpgp_byte_t\b', 'unsigned char'),
    (r'\buint8_t\b', 'unsigned char'),
    (r'\b__mpz_struct \*', 'mpz_ptr'),
    (r'\s*>', '>'), (r'\s+', ' '),
]

TYPEMAP = {
    'std::vector<unsigned long>': 'vec_ulong',
    'std::vector<unsigned char>': 'vec_u8',
    'tmcg_openpgp_octets_t': 'vec_u8',
    'std::vector<unsigned char, TMCG_SecureAlloc<unsigned char>>': 'vec_u8',
    'tmcg_openpgp_secure_octets_t': 'vec_u8',
    'std::vector<bool>': 'vec_bool', 'std::_Bit_reference': 'bitref_t', 'std::vector<bool>::reference': 'bitref_t',
    'std::vector<bool>::const_reference': '_Bool',
    'std::vector<mpz_ptr>': 'vec_mpz',
    'tmcg_mpz_vector_t': 'vec_mpz',
    'std::string': 'str_t',
    'std::istream': 'ios_t', 'std::ostream': 'ios_t', 'std::stream': 'ios_t',
    'std::stringstream': 'ios_t', 'std::ostringstream': 'ios_t',
    'std::istringstream': 'ios_t', 'std::basic_ios<char>': 'ios_t', 'std::ios_base': 'ios_t',
    'std::map<std::string, mpz_ptr>': 'map_str_mpz',
    'std::vector<unsigned char>::const_iterator': 'vec_u8_iter', 'std::vector<unsigned char>::iterator': 'vec_u8_iter',
    '__gnu_cxx::__normal_iterator<unsigned char *, std::vector<unsigned char>>': 'vec_u8_iter',
    '__gnu_cxx::__normal_iterator<const unsigned char *, std::vector<unsigned char>>': 'vec_u8_iter',
    'std::string::__const_iterator': 'str_t_iter', 'std::string::const_iterator': 'str_t_iter', 'std::string::iterator': 'str_t_iter',
    '__gnu_cxx::__normal_iterator<char *, std::string>': 'str_t_iter',
    '__gnu_cxx::__normal_iterator<const char *, std::string>': 'str_t_iter',
    'std::vector<unsigned char>::difference_type': 'long',
    '__gnu_cxx::__normal_iterator<unsigned char *, std::vector<unsigned char>>::difference_type': 'long',
    '__gnu_cxx::__normal_iterator<const unsigned char *, std::vector<unsigned char>>::difference_type': 'long',
}


def split_top(s, sep=','):
    out, depth, cur = [], 0, ''
    for ch in s:
        if ch in '<([':
            depth += 1
        elif ch in '>)]':
            depth -= 1
        if ch == sep and depth == 0:
            out.append(cur.strip())
            cur = ''
        else:
            cur += ch
    if cur.strip():
        out.append(cur.strip())
    return out


def strip_cv(t):
    t = t.strip()
    changed = True
    while changed:
        changed = False
        for q in ('const ', 'volatile '):
            if t.startswith(q):
                t = t[len(q):]
                changed = True
        for q in (' const', ' volatile'):
            if t.endswith(q):
                t = t[:-len(q)]
                changed = True
    return t


class Types:
    def __init__(self, cfg):
        self.map = dict(TYPEMAP)
        self.map.update(cfg.get('typemap', {}))
        self.classes = set(cfg.get('classes', []))
        self.scalars = set(cfg.get('scalar_types', []))

    def norm(self, t):
        for pat, rep in NORMALISE:
            t = re.sub(pat, rep, t)
        return t.strip()

    def base(self, t):
        """C name for a non-pointer, non-reference, non-array type spelling."""
        t = strip_cv(t)
        t = re.sub(r'\bconst ', '', t)
        for cand in (t, self.norm(t)):
            if cand in BUILTIN:
                return BUILTIN[cand]
            if cand in self.map:
                return self.map[cand]
            if cand in self.classes:
                return cand
        n = self.norm(t)
        m = re.match(r'^(?:typename )?([A-Za-z_][\w:]*<.*>)$', n)
        if m and self._mangle_ok(n):
            return self._mangle(n)
        raise ExtractionError('type outside the subset: %r (normalised %r)' % (t, n))

    def _mangle_ok(self, n):
        head = n.split('<', 1)[0]
        return head in self.classes or head in ('std::pair', 'std::vector')

    def _mangle(self, n):
        # std::pair<unsigned long, VTMF_CardSecret> -> pair_ulong_VTMF_CardSecret
        m = re.match(r'^([\w:]+)<(.*)>$', n)
        head, args = m.group(1), split_top(m.group(2))
        head = {'std::pair': 'pair', 'std::vector': 'vec'}.get(head, head)
        parts = []
        for a in args:
            c = self.ctype(a)[0]
            c = {'unsigned long': 'ulong', 'size_t': 'ulong', 'unsigned char': 'u8',
                 'mpz_ptr': 'mpz'}.get(c, c)
            parts.append(re.sub(r'\W+', '_', c))
        return head + '_' + '_'.join(parts)

    def ctype(self, qt, desugared=None):
        """-> (ctype string without array suffix, array suffix, is_reference)"""
        errs = []
        for t in ([qt] + ([desugared] if desugared else [])):
            try:
                return self._ctype(t)
            except ExtractionError as e:
                errs.append(str(e))
        raise ExtractionError('; '.join(errs))

    def _ctype(self, t):
        t = t.strip()
        is_ref = False
        if t.endswith('&&'):
            t = t[:-2].strip()
            is_ref = True
        elif t.endswith('&'):
            t = t[:-1].strip()
            is_ref = True
        arr = ''
        m = re.match(r'^(.*?)((?:\[[^\]]*\])+)$', t)
        if m:
            t, arr = m.group(1).strip(), m.group(2)
        t = strip_cv(t)
        ptr = ''
        while t.endswith('*'):
            t = strip_cv(t[:-1])
            ptr += ' *'
        m = re.match(r'^(.*)\(\*\)\((.*)\)$', t)
        if m:
            if t in self.map:    # a group may name one function pointer type (typedef in its types.h)
                return (self.map[t] + ptr, arr, is_ref)
            raise ExtractionError('function pointer type outside the subset: %r' % t)
        return (self.base(t) + ptr, arr, is_ref)

    def is_scalar(self, c):
        return c.endswith('*') or c in SCALAR_C or c.startswith('enum ') or c in self.scalars


# --------------------------------------------------------------------------
# emission
# --------------------------------------------------------------------------

OPNAMES = {
    'operator[]': 'op_index', 'operator=': 'op_assign', 'operator+=': 'op_addassign',
    'operator==': 'op_eq', 'operator!=': 'op_ne', 'operator<': 'op_lt',
    'operator+': 'op_add', 'operator()': 'op_call', 'operator*': 'op_deref',
    'operator->': 'op_arrow', 'operator++': 'op_inc', 'operator!': 'op_not',
    'operator bool': 'op_bool', 'operator-': 'op_sub', 'operator--': 'op_dec',
}

STL_C = ('vec_', 'str_t', 'ios_t', 'map_', 'pair_')

ZERO = {'void': ''}


class Ctx:
    def __init__(self, allow_hoist=True):
        self.pre = []
        self.allow_hoist = allow_hoist


class Emitter:
    def __init__(self, cfg, fn_node, cname, self_class=None, spec=None):
        self.cfg = cfg
        self.T = Types(cfg)
        self.fn = fn_node
        self.cname = cname
        self.self_class = self_class
        self.spec = spec or {}
        self.refdecls = set()
        self.decl_ctype = {}
        self.tmpn = 0
        self.loopn = 0
        self.tryn = 0
        self.trystack = []
        self.rules = {}
        self.ret_c = None
        self.may_throw = set(cfg.get('may_throw', []))
        self.fname_map = cfg.get('functions', {})
        self.uses_thrown = False
        self.loop_lines = []

    # -- bookkeeping -------------------------------------------------------
    def fire(self, r):
        self.rules[r] = self.rules.get(r, 0) + 1

    def tmp(self):
        self.tmpn += 1
        return '__t%d' % self.tmpn

    def ty(self, node):
        t = node.get('type', {})
        return self.T.ctype(t.get('qualType', ''), t.get('desugaredQualType'))

    def zero_ret(self):
        if self.ret_c == 'void':
            return 'return;'
        if self.T.is_scalar(self.ret_c):
            return 'return 0;'
        return 'return __verif_zero_%s();' % re.sub(r'\W+', '_', self.ret_c)

    # -- function ----------------------------------------------------------
    def function(self):
        fn = self.fn
        ftype = fn['type']['qualType']
        m = re.match(r'^(.*?)\s*\((.*)\)(\s*const)?(\s*noexcept)?$', ftype)
        if not m:
            raise ExtractionError('cannot parse function type %r' % ftype)
        rt = m.group(1).strip()
        rc, rarr, rref = self.T.ctype(rt)
        if rref:
            rc += ' *'
        self.ret_is_ref = rref
        self.ret_c = rc
        params = []
        if self.self_class:
            params.append('%s *self' % self.self_class)
            self.fire('E1_this')
        body = None
        for c in fn.get('inner', []):
            if c['kind'] == 'ParmVarDecl':
                pc, parr, pref = self.ty(c)
                name = c.get('name', '__unnamed%d' % len(params))
                if pref:
                    self.refdecls.add(c['id'])
                    self.fire('E4_refparam')
                    params.append('%s *%s' % (pc, name))
                elif parr:
                    params.append('%s %s%s' % (pc, name, parr))
                else:
                    params.append('%s %s' % (pc, name))
                self.decl_ctype[c['id']] = pc
            elif c['kind'] == 'CompoundStmt':
                body = c
        if body is None:
            raise ExtractionError('no body for %s' % self.cname)
        prologue = []
        for c in fn.get('inner', []):
            if c.get('kind') != 'CXXCtorInitializer':
                continue
            fld = c.get('anyInit', {})
            if c.get('baseInit') and c.get('inner'):
                # base-class constructor: the derived struct starts with the base's fields (class_struct flattens them)
                bc = self.T.ctype(c['baseInit']['qualType'])[0]
                ini = self.strip_wrappers(c['inner'][0])
                if ini.get('kind') != 'CXXConstructExpr':
                    raise ExtractionError('%s: base initialiser of unexpected form' % self.cname)
                ctx = Ctx(False)
                args = [a for a in ini.get('inner', []) if a.get('kind') != 'CXXDefaultArgExpr']
                al = [self.arg(a, ctx) for a in args]
                key = '%s::%s|%s' % (bc, bc, ini.get('type', {}).get('qualType', ''))
                cn = '%s__ctor_%d' % (bc, len(al))
                for pat, name in self.cfg.get('ctor_names', []):
                    if re.search(pat, '%s|%d' % (bc, len(al))):
                        cn = name
                call = '%s((%s *)self%s)' % (cn, bc, ''.join(', ' + a for a in al))
                if cn in self.may_throw:
                    self.uses_thrown = True
                    prologue.append('  %s;' % call)
                    prologue.append('  if (__tmcg_thrown) %s' % self.zero_ret())
                else:
                    prologue.append('  %s;' % call)
                self.fire('E1_base_ctor')
                continue
            if not fld or not c.get('inner'):
                raise ExtractionError('%s: delegating constructor initialiser outside the subset' % self.cname)
            fc, farr, fref = self.T.ctype(fld['type']['qualType'], fld['type'].get('desugaredQualType'))
            ini = self.strip_wrappers(c['inner'][0])
            ctx = Ctx(False)
            if ini.get('kind') == 'CXXConstructExpr':
                args = [a for a in ini.get('inner', []) if a.get('kind') != 'CXXDefaultArgExpr']
                if farr or self.T.is_scalar(fc) or fc == 'mpz_t':
                    continue                      # trivial construction of a C object
                al = [self.arg(a, ctx, fc) for a in args]
                prologue.append('  %s__ctor_%d(%s);' % (fc, len(al), ', '.join(['&self->' + fld['name']] + al)))
                self.fire('E5_ctor')
            elif ini.get('kind') == 'ImplicitValueInitExpr':
                prologue.append('  self->%s = 0;' % fld['name'])
            else:
                prologue.append('  self->%s = %s;' % (fld['name'], self.expr(c['inner'][0], ctx)))
            self.fire('E1_ctor_init')
        lines = self.compound(body, 0, top=True)
        if prologue:
            lines = [lines[0], '  /* member initialisers */'] + prologue + lines[1:]
        sig = '%s %s(%s)' % (rc, self.cname, ', '.join(params) if params else 'void')
        contract = self.spec.get('contract', '').rstrip()
        out = [sig]
        if contract:
            out.append(contract)
            self.fire('E14_contract')
        out.extend(lines)
        nl = len(self.spec.get('loops', {}))
        if nl and nl != self.loopn and self.spec.get('require_loop_contracts', True):
            raise ExtractionError('%s: spec has %d loop contracts, extracted text has %d loops'
                                  % (self.cname, nl, self.loopn))
        return sig, '\n'.join(out) + '\n'

    # -- statements --------------------------------------------------------
    def ind(self, d):
        return '  ' * d

    def compound(self, node, d, top=False):
        out = [self.ind(d) + '{']
        for c in node.get('inner', []):
            out.extend(self.stmt(c, d + 1))
        out.append(self.ind(d) + '}')
        return out

    def wrap(self, ctx, lines, d):
        """prefix hoisted statements; wrap in a block when there are any"""
        if not ctx.pre:
            return lines
        out = [self.ind(d) + '{']
        out.extend(self.ind(d + 1) + p for p in ctx.pre)
        out.extend('  ' + l for l in lines)
        out.append(self.ind(d) + '}')
        return out

    def stmt(self, n, d):
        k = n['kind']
        I = self.ind(d)
        if k == 'CompoundStmt':
            return self.compound(n, d)
        if k == 'NullStmt':
            return [I + ';']
        if k == 'DeclStmt':
            return self.declstmt(n, d)
        if k == 'ReturnStmt':
            ctx = Ctx()
            inner = n.get('inner', [])
            if inner:
                e = self.addr(inner[0], ctx) if getattr(self, 'ret_is_ref', False) else self.expr(inner[0], ctx)
                return self.wrap_flat(ctx, [I + 'return %s;' % e], d)
            return [I + 'return;']
        if k == 'IfStmt':
            inner = n['inner']
            ctx = Ctx()
            cond = self.expr(inner[0], ctx)
            out = [I + 'if (%s)' % cond]
            out.extend(self.block(inner[1], d))
            if len(inner) > 2:
                out.append(I + 'else')
                out.extend(self.block(inner[2], d))
            return self.wrap(ctx, out, d)
        if k == 'ForStmt':
            init, _condvar, cond, inc, body = n['inner']
            out = []
            ctx = Ctx(False)
            init_s = ''
            if init.get('kind') == 'DeclStmt':
                ls = self.declstmt(init, 0)
                if len(ls) != 1:
                    # several declarators (or a hoisted initialiser) in the for-init: the declarations move into an
                    # enclosing block of their own, `{ T a = ..; T b = ..; for (; c; inc) body }` (same scope, same order)
                    if any(not l.strip().endswith(';') for l in ls):
                        raise ExtractionError('for-init with constructor')
                    self.fire('E16_for_init_block')
                    cond_s = self.expr(cond, ctx) if cond.get('kind') else ''
                    inc_s = self.expr(inc, ctx) if inc.get('kind') else ''
                    out.append(I + '{')
                    out.extend(I + '  ' + l.strip() for l in ls)
                    out.append(I + '  for (; %s; %s)' % (cond_s, inc_s))
                    out.extend(self.loop_contract(d + 1))
                    out.extend(self.block(body, d + 1))
                    out.append(I + '}')
                    return out
                init_s = ls[0].strip().rstrip(';')
            elif init.get('kind'):
                init_s = self.expr(init, ctx)
            cond_s = self.expr(cond, ctx) if cond.get('kind') else ''
            inc_s = self.expr(inc, ctx) if inc.get('kind') else ''
            out.append(I + 'for (%s; %s; %s)' % (init_s, cond_s, inc_s))
            out.extend(self.loop_contract(d))
            out.extend(self.block(body, d))
            return out
        if k == 'WhileStmt':
            cond, body = n['inner'][-2], n['inner'][-1]
            ctx = Ctx(False)
            out = [I + 'while (%s)' % self.expr(cond, ctx)]
            out.extend(self.loop_contract(d))
            out.extend(self.block(body, d))
            return out
        if k == 'DoStmt':
            body, cond = n['inner']
            ctx = Ctx(False)
            out = [I + 'do']
            lc = self.loop_contract(d)
            out.extend(lc)
            out.extend(self.block(body, d))
            out.append(I + 'while (%s);' % self.expr(cond, ctx))
            return out
        if k == 'BreakStmt':
            return [I + 'break;']
        if k == 'ContinueStmt':
            return [I + 'continue;']
        if k == 'SwitchStmt':
            ctx = Ctx()
            cond, body = n['inner'][-2], n['inner'][-1]
            out = [I + 'switch (%s)' % self.expr(cond, ctx)]
            out.extend(self.block(body, d))
            return self.wrap(ctx, out, d)
        if k == 'CaseStmt':
            ctx = Ctx(False)
            out = [I + 'case %s:' % self.expr(n['inner'][0], ctx)]
            out.extend(self.stmt(n['inner'][-1], d + 1))
            return out
        if k == 'DefaultStmt':
            return [I + 'default:'] + self.stmt(n['inner'][-1], d + 1)
        if k == 'CXXTryStmt':
            return self.trystmt(n, d)
        if k in ('ExprWithCleanups',) and n['inner'][0]['kind'] == 'CXXThrowExpr':
            return self.throwstmt(n['inner'][0], d)
        if k == 'CXXThrowExpr':
            return self.throwstmt(n, d)
        # expression statement
        ctx = Ctx()
        e = self.expr(n, ctx, stmt=True)
        lines = [I + e + ';'] if e else []
        return self.wrap_flat(ctx, lines, d)

    def wrap_flat(self, ctx, lines, d):
        if not ctx.pre:
            return lines
        out = [self.ind(d) + '{']
        out.extend(self.ind(d + 1) + p for p in ctx.pre)
        out.extend('  ' + l for l in lines)
        out.append(self.ind(d) + '}')
        return out

    def block(self, n, d):
        if n['kind'] == 'CompoundStmt':
            return self.compound(n, d)
        out = [self.ind(d) + '{']
        out.extend(self.stmt(n, d + 1))
        out.append(self.ind(d) + '}')
        return out

    def loop_contract(self, d):
        self.loopn += 1
        lc = self.spec.get('loops', {}).get(self.loopn)
        if lc is None:
            if self.spec.get('require_loop_contracts', True) and self.spec.get('contract'):
                raise ExtractionError('%s: loop %d has no loop contract in the spec'
                                      % (self.cname, self.loopn))
            return []
        self.fire('E14_loop_contract')
        return [self.ind(d + 1) + l for l in lc.strip().split('\n')]

    def declstmt(self, n, d):
        out = []
        I = self.ind(d)
        for v in n.get('inner', []):
            if v['kind'] != 'VarDecl':
                raise ExtractionError('declaration kind %s outside the subset' % v['kind'])
            c, arr, ref = self.ty(v)
            name = v['name']
            self.decl_ctype[v['id']] = c
            sc = ''
            if v.get('storageClass') == 'static':
                sc = 'static '
            init = v.get('inner', [])
            init = [x for x in init if x.get('kind')]
            if ref:
                if not init:
                    raise ExtractionError('reference without initialiser')
                self.refdecls.add(v['id'])
                ctx = Ctx()
                e = self.addr(init[0], ctx)
                out.extend(self.wrap_flat(ctx, [], d))
                out.extend(I + p for p in ctx.pre)
                out.append(I + '%s *%s = %s;' % (c, name, e))
                continue
            if not init:
                out.append(I + '%s%s %s%s;' % (sc, c, name, arr))
                continue
            ini = init[0]
            ctx = Ctx()
            stripped = self.strip_wrappers(ini)
            if stripped['kind'] == 'CXXConstructExpr':
                args = [a for a in stripped.get('inner', []) if a.get('kind') != 'CXXDefaultArgExpr']
                if arr or self.T.is_scalar(c) or c in ('mpz_t',):
                    # trivial construction of a C object
                    out.append(I + '%s%s %s%s;' % (sc, c, name, arr))
                    continue
                if len(args) == 1 and self.ty(args[0])[0] == c:
                    a0 = self.strip_wrappers(args[0])
                    if a0.get('valueCategory') == 'prvalue':
                        e = self.expr(a0, ctx)
                        out.extend(I + p for p in ctx.pre)
                        out.append(I + '%s %s = %s;' % (c, name, e))
                    else:
                        e = self.addr(a0, ctx)
                        out.extend(I + p for p in ctx.pre)
                        out.append(I + '%s %s;' % (c, name))
                        out.append(I + '%s__copy(&%s, %s);' % (c, name, e))
                    self.fire('E5_ctor')
                    continue
                al = [self.arg(a, ctx, c) for a in args]
                out.extend(I + p for p in ctx.pre)
                out.append(I + '%s %s;' % (c, name))
                out.append(I + '%s__ctor_%d(%s);' % (c, len(al), ', '.join(['&' + name] + al)))
                self.fire('E5_ctor')
                continue
            if stripped['kind'] == 'InitListExpr':
                raise ExtractionError('initialiser list outside the subset')
            e = self.expr(ini, ctx)
            out.extend(I + p for p in ctx.pre)
            out.append(I + '%s%s %s%s = %s;' % (sc, c, name, arr, e))
        return out

    def trystmt(self, n, d):
        I = self.ind(d)
        body = n['inner'][0]
        catches = n['inner'][1:]
        if len(catches) != 1:
            raise ExtractionError('try with %d handlers outside the subset' % len(catches))
        cat = catches[0]
        cv = cat['inner'][0]
        if cv.get('kind') != 'VarDecl' or cv['type']['qualType'] != 'bool':
            raise ExtractionError('only catch (bool x) is in the subset')
        self.tryn += 1
        k = self.tryn
        self.fire('E2_try_catch_bool')
        var = cv['name']
        self.decl_ctype[cv['id']] = '_Bool'
        out = [I + '_Bool %s = 0;' % var]
        self.trystack.append((k, var))
        out.extend(self.compound(body, d))
        self.trystack.pop()
        out.append(I + 'goto __after_%d;' % k)
        out.append(I + '__catch_%d: ;' % k)
        out.extend(self.compound(cat['inner'][1], d))
        out.append(I + '__after_%d: ;' % k)
        return out

    def throwstmt(self, n, d):
        I = self.ind(d)
        inner = n.get('inner', [])
        if not inner:
            raise ExtractionError('rethrow outside the subset')
        e = inner[0]
        t = e.get('type', {}).get('qualType', '')
        if t == 'bool':
            if not self.trystack:
                raise ExtractionError('throw bool without enclosing catch(bool)')
            k, var = self.trystack[-1]
            ctx = Ctx()
            v = self.expr(e, ctx)
            self.fire('E2_throw_bool')
            return self.wrap_flat(ctx, [I + '{ %s = %s; goto __catch_%d; }' % (var, v, k)], d)
        m = re.match(r'^(?:const )?std::(\w+)$', t)
        if m:
            self.fire('E3_throw_std')
            self.uses_thrown = True
            return [I + '{ __tmcg_thrown = TMCG_EXC_%s; %s }' % (m.group(1), self.zero_ret())]
        raise ExtractionError('throw of type %r outside the subset' % t)

    # -- expressions -------------------------------------------------------
    def strip_wrappers(self, n):
        while n.get('kind') in ('ExprWithCleanups', 'MaterializeTemporaryExpr',
                                'CXXBindTemporaryExpr', 'ConstantExpr') or \
                (n.get('kind') == 'ImplicitCastExpr' and
                 n.get('castKind') in ('NoOp', 'ConstructorConversion', 'UserDefinedConversion')) or \
                (n.get('kind') == 'CXXFunctionalCastExpr' and n.get('castKind') in ('NoOp', 'ConstructorConversion')):
            n = n['inner'][0]
        return n

    def is_lvalue(self, n):
        n = self.strip_noop(n)
        return n.get('valueCategory') in ('lvalue', 'xvalue')

    def strip_noop(self, n):
        while (n.get('kind') == 'ImplicitCastExpr' and n.get('castKind') in ('NoOp', 'DerivedToBase', 'UncheckedDerivedToBase')) \
                or n.get('kind') in ('ExprWithCleanups', 'CXXBindTemporaryExpr'):
            n = n['inner'][0]
        return n

    def addr(self, n, ctx):
        """C expression for the address of the object denoted by lvalue n"""
        n0 = self.strip_noop(n)
        if n0['kind'] == 'MaterializeTemporaryExpr':
            inner = n0['inner'][0]
            c, arr, ref = self.ty(n0)
            if not ctx.allow_hoist:
                raise ExtractionError('temporary bound to a reference where hoisting is not possible')
            t = self.tmp()
            e = self.expr(inner, ctx)
            ctx.pre.append('%s %s = %s;' % (c, t, e))
            self.fire('E6_temp')
            return '&' + t
        e = self.expr(n0, ctx)
        m = re.match(r'^\(\*([A-Za-z_]\w*)\)$', e)
        if m:
            return m.group(1)
        m = re.match(r'^\(\*(.*)\)$', e)
        if m and self._balanced(m.group(1)):
            return '(' + m.group(1) + ')'
        return '&' + e

    @staticmethod
    def _balanced(s):
        d = 0
        for ch in s:
            if ch == '(':
                d += 1
            elif ch == ')':
                d -= 1
                if d < 0:
                    return False
        return d == 0

    def arg(self, a, ctx, callee_class_c=None, stl=False):
        """one call argument"""
        a0 = self.strip_noop(a)
        fn = a0
        while fn.get('kind') in ('ImplicitCastExpr', 'UnaryOperator', 'ParenExpr') and fn.get('inner'):
            fn = fn['inner'][0]
        if fn.get('kind') == 'DeclRefExpr' and fn.get('referencedDecl', {}).get('kind') in ('FunctionDecl', 'CXXMethodDecl'):
            self.fire('E6_function_argument')
            return self.fname(fn['referencedDecl'], fn)     # a named function passed as argument
        c = self.ty(a0)[0] if a0.get('type') else None
        scalar = c is not None and self.T.is_scalar(c) and not self.ty(a0)[1]
        if a0['kind'] == 'MaterializeTemporaryExpr' and scalar and not stl:
            # prvalue scalar bound to a const reference parameter of a library function: needs an address
            pass
        if c is not None and c.endswith('_iter'):
            # iterators are small value objects
            a1 = a0
            while a1.get('kind') in ('MaterializeTemporaryExpr', 'CXXConstructExpr', 'ImplicitCastExpr', 'CXXBindTemporaryExpr') and a1.get('inner'):
                if a1['kind'] == 'CXXConstructExpr' and len(a1['inner']) != 1:
                    break
                a1 = a1['inner'][0]
            return self.expr(a1, ctx)
        if stl and scalar:
            # STL stubs take scalar elements/indices by value
            if a0['kind'] == 'MaterializeTemporaryExpr':
                a0 = a0['inner'][0]
            return self.expr(a0, ctx)
        if a0['kind'] == 'MaterializeTemporaryExpr':
            return self.addr(a0, ctx)
        if a0.get('valueCategory') in ('lvalue', 'xvalue'):
            # bound to a reference parameter
            return self.addr(a0, ctx)
        if a0['kind'] == 'CXXConstructExpr' and not scalar:
            args = a0.get('inner', [])
            if len(args) == 1:
                src = self.strip_wrappers(args[0])
                if src.get('valueCategory') == 'prvalue':
                    return self.expr(src, ctx)
                self.fire('E5_copy_arg')
                return '%s__copy_val(%s)' % (c, self.addr(src, ctx))
            raise ExtractionError('constructor call as argument outside the subset')
        return self.expr(a0, ctx)

    def lit_suffix(self, c):
        return {'unsigned long': 'UL', 'long': 'L', 'unsigned int': 'U',
                'unsigned long long': 'ULL', 'long long': 'LL', 'size_t': 'UL'}.get(c, '')

    def fname(self, ref, node):
        name = ref.get('name')
        m = re.match(r'^__g(mp[zqnf]_\w+)$', name)
        if m:
            name = m.group(1)
        sig = node.get('type', {}).get('qualType', '') if node else ''
        key = '%s|%s' % (name, sig)
        for pat, cn in self.cfg.get('overloads', []):
            if re.search(pat, key):
                return cn
        return self.fname_map.get(name, name)

    def expr(self, n, ctx, stmt=False):
        k = n.get('kind')
        if k is None:
            return ''
        f = getattr(self, 'x_' + k, None)
        if f is None:
            raise ExtractionError('%s: AST node %s outside the subset' % (self.cname, k))
        return f(n, ctx, stmt) if k in ('CallExpr', 'CXXMemberCallExpr', 'CXXOperatorCallExpr', 'BinaryOperator',
                                       'ExprWithCleanups', 'ParenExpr', 'UnaryOperator', 'CompoundAssignOperator') else f(n, ctx)

    def x_IntegerLiteral(self, n, ctx):
        c = self.ty(n)[0]
        return n['value'] + self.lit_suffix(c)

    def x_CharacterLiteral(self, n, ctx):
        return '((char)%d)' % n['value']

    def x_StringLiteral(self, n, ctx):
        return n['value']

    def x_CXXBoolLiteralExpr(self, n, ctx):
        return '((_Bool)%d)' % (1 if n['value'] else 0)

    def x_CXXNullPtrLiteralExpr(self, n, ctx):
        return '0'

    def x_GNUNullExpr(self, n, ctx):
        return '0'

    def x_ImplicitValueInitExpr(self, n, ctx):
        return '0'

    def x_ConstantExpr(self, n, ctx):
        return self.expr(n['inner'][0], ctx)

    def x_DeclRefExpr(self, n, ctx):
        ref = n['referencedDecl']
        if ref['kind'] in ('FunctionDecl', 'CXXMethodDecl'):
            return self.fname(ref, n)
        if ref['kind'] == 'EnumConstantDecl':
            return ref['name']
        name = ref['name']
        if ref['id'] in self.refdecls or ref.get('type', {}).get('qualType', '').endswith('&'):
            self.fire('E4_refuse')
            return '(*%s)' % name
        return name

    def x_CXXThisExpr(self, n, ctx):
        return 'self'

    def x_MemberExpr(self, n, ctx):
        if n.get('name') == 'npos':
            self.fire('E7_npos')
            return '((size_t)-1)'    # std::string::npos reached through an object expression
        base = n['inner'][0]
        b = self.expr(base, ctx)
        if n.get('isArrow'):
            m = re.match(r'^\(\*(.*)\)$', b)
            return '%s->%s' % (b, n['name'])
        m = re.match(r'^\(\*([A-Za-z_]\w*)\)$', b)
        if m:
            return '%s->%s' % (m.group(1), n['name'])
        return '%s.%s' % (b, n['name'])

    def x_ParenExpr(self, n, ctx, stmt=False):
        return '(%s)' % self.expr(n['inner'][0], ctx)

    def x_ExprWithCleanups(self, n, ctx, stmt=False):
        return self.expr(n['inner'][0], ctx, stmt)

    def x_CXXBindTemporaryExpr(self, n, ctx):
        return self.expr(n['inner'][0], ctx)

    def x_MaterializeTemporaryExpr(self, n, ctx):
        # value use of a temporary (no address needed)
        return self.expr(n['inner'][0], ctx)

    def x_CXXFunctionalCastExpr(self, n, ctx):
        return self.x_CStyleCastExpr(n, ctx)

    def x_CXXStaticCastExpr(self, n, ctx):
        return self.x_CStyleCastExpr(n, ctx)

    def x_CXXReinterpretCastExpr(self, n, ctx):
        return self.x_CStyleCastExpr(n, ctx)

    def x_CXXConstCastExpr(self, n, ctx):
        return self.x_CStyleCastExpr(n, ctx)

    def x_CStyleCastExpr(self, n, ctx):
        c, arr, ref = self.ty(n)
        e = self.expr(n['inner'][0], ctx)
        if n.get('castKind') == 'ToVoid':
            return '((void)%s)' % e
        if not self.T.is_scalar(c) and c != 'void':
            if n.get('castKind') in ('NoOp', 'ConstructorConversion'):
                return e
            raise ExtractionError('cast to non-scalar %s' % c)
        return '((%s)%s)' % (c, e)

    def x_ImplicitCastExpr(self, n, ctx):
        ck = n.get('castKind')
        sub = n['inner'][0]
        if ck in ('LValueToRValue', 'NoOp', 'ArrayToPointerDecay', 'FunctionToPointerDecay',
                  'BuiltinFnToFnPtr', 'DerivedToBase', 'UncheckedDerivedToBase',
                  'ConstructorConversion', 'UserDefinedConversion'):
            return self.expr(sub, ctx)
        if ck in ('IntegralCast', 'BitCast', 'IntegralToPointer', 'PointerToIntegral',
                  'IntegralToFloating', 'FloatingToIntegral', 'BooleanToSignedIntegral'):
            c = self.ty(n)[0]
            return '((%s)%s)' % (c, self.expr(sub, ctx))
        if ck in ('IntegralToBoolean', 'PointerToBoolean'):
            return '(%s != 0)' % self.expr(sub, ctx)
        if ck == 'NullToPointer':
            return '0'
        if ck == 'ToVoid':
            return '((void)%s)' % self.expr(sub, ctx)
        raise ExtractionError('implicit cast kind %s outside the subset' % ck)

    def x_UnaryOperator(self, n, ctx, stmt=False):
        op = n['opcode']
        sub = n['inner'][0]
        if op == '&':
            return self.addr(sub, ctx)
        e = self.expr(sub, ctx)
        if op == '*':
            return '(*%s)' % e
        if n.get('isPostfix'):
            return '%s%s' % (e, op) if stmt else '(%s%s)' % (e, op)
        if op == '__extension__':
            return e
        return '%s%s' % (op, e) if stmt and op in ('++', '--') else '(%s%s)' % (op, e)

    def x_BinaryOperator(self, n, ctx, stmt=False):
        op = n['opcode']
        a, b = n['inner']
        if op in ('&&', '||'):
            ea = self.expr(a, ctx)
            c2 = Ctx(False)
            eb = self.expr(b, c2)
            return '(%s %s %s)' % (ea, op, eb)
        if op == ',':
            ea = self.expr(a, ctx, stmt)
            eb = self.expr(b, ctx, stmt)
            if stmt:
                return '%s; %s' % (ea, eb)
            return '(%s, %s)' % (ea, eb)
        ea = self.expr(a, ctx)
        eb = self.expr(b, ctx)
        if stmt and op == '=':
            return '%s = %s' % (ea, eb)
        return '(%s %s %s)' % (ea, op, eb)

    def x_CompoundAssignOperator(self, n, ctx, stmt=False):
        a, b = n['inner']
        ea = self.expr(a, ctx)
        eb = self.expr(b, ctx)
        # C++ computes in computeResultType and converts back; C does the same
        if stmt:
            return '%s %s %s' % (ea, n['opcode'], eb)
        return '(%s %s %s)' % (ea, n['opcode'], eb)

    def x_ConditionalOperator(self, n, ctx):
        c, a, b = n['inner']
        ec = self.expr(c, ctx)
        c2 = Ctx(False)
        return '(%s ? %s : %s)' % (ec, self.expr(a, c2), self.expr(b, c2))

    def x_ArraySubscriptExpr(self, n, ctx):
        a, i = n['inner']
        return '%s[%s]' % (self.expr(a, ctx), self.expr(i, ctx))

    def x_UnaryExprOrTypeTraitExpr(self, n, ctx):
        if n.get('name') != 'sizeof':
            raise ExtractionError('type trait %s' % n.get('name'))
        if n.get('inner'):
            return 'sizeof(%s)' % self.expr(n['inner'][0], Ctx(False))
        c, arr, ref = self.T.ctype(n['argType']['qualType'], n['argType'].get('desugaredQualType'))
        return 'sizeof(%s%s)' % (c, arr)

    def x_CXXNewExpr(self, n, ctx):
        c, arr, ref = self.ty(n)      # pointer type
        self.fire('E5_new')
        elem = c[:-2] if c.endswith(' *') else c
        if n.get('isArray'):
            size = None
            for ch in n.get('inner', []):
                if ch.get('kind') not in ('CXXConstructExpr', 'InitListExpr', 'ImplicitValueInitExpr'):
                    size = ch
                    break
            # `new T[n]()` value-initialises (zeroes) the elements, `new T[n]` leaves scalars uninitialised
            zero = any(ch.get('kind') in ('InitListExpr', 'ImplicitValueInitExpr') for ch in n.get('inner', []))
            return '((%s)%s(sizeof(%s), %s))' % (c, '__verif_new_array_zero' if zero else '__verif_new_array', elem, self.expr(size, ctx))
        ctor = [ch for ch in n.get('inner', []) if ch.get('kind') == 'CXXConstructExpr']
        if ctor and not self.T.is_scalar(elem) and elem not in ('mpz_t', '__mpz_struct'):
            # new Class(args): allocation + constructor, provided as Class__new_k by the group (malloc + extracted ctor)
            args = [a for a in ctor[0].get('inner', []) if a.get('kind') != 'CXXDefaultArgExpr']
            al = [self.arg(a, ctx) for a in args]
            cn = '%s__new_%d' % (elem, len(al))
            self.fire('E5_new_object')
            call = '%s(%s)' % (cn, ', '.join(al))
            if cn in self.may_throw:
                self.uses_thrown = True
                if not ctx.allow_hoist:
                    raise ExtractionError('%s: throwing constructor in a non-hoistable position' % self.cname)
                t = self.tmp()
                ctx.pre.append('%s %s = %s;' % (c, t, call))
                ctx.pre.append('if (__tmcg_thrown) %s' % self.zero_ret())
                return t
            return call
        return '((%s)__verif_new(sizeof(%s)))' % (c, elem)

    def x_CXXDeleteExpr(self, n, ctx):
        self.fire('E5_delete')
        return '__verif_delete(%s)' % self.expr(n['inner'][0], ctx)

    def x_CXXConstructExpr(self, n, ctx):
        # value use: only copy/move elision of a prvalue is in the subset
        args = n.get('inner', [])
        c = self.ty(n)[0]
        if len(args) == 1 and self.ty(args[0])[0] == c:
            src = self.strip_wrappers(args[0])
            if src.get('valueCategory') == 'prvalue':
                return self.expr(src, ctx)
            self.fire('E5_copy_val')
            return '%s__copy_val(%s)' % (c, self.addr(src, ctx))
        al = [self.arg(a, ctx) for a in args if a.get('kind') != 'CXXDefaultArgExpr']
        self.fire('E5_ctor_val')
        return '%s__make_%d(%s)' % (c, len(al), ', '.join(al))

    def x_CXXTemporaryObjectExpr(self, n, ctx):
        c = self.ty(n)[0]
        al = [self.arg(a, ctx, stl=c.startswith(STL_C)) for a in n.get('inner', []) if a.get('kind') != 'CXXDefaultArgExpr']
        self.fire('E5_ctor_val')
        return '%s__make_%d(%s)' % (c, len(al), ', '.join(al))

    def x_CXXDefaultArgExpr(self, n, ctx):
        raise ExtractionError('default argument used at a call site (list it in cfg.default_args)')

    # calls ---------------------------------------------------------------
    def callee_ref(self, n):
        c = n['inner'][0]
        while c.get('kind') in ('ImplicitCastExpr', 'ParenExpr'):
            c = c['inner'][0]
        return c

    def finish_call(self, n, ctx, call, cname, stmt):
        """may-throw hoisting and reference-return dereference"""
        rt_lvalue = n.get('valueCategory') == 'lvalue'
        c, arr, ref = self.ty(n)
        if cname in self.may_throw:
            self.uses_thrown = True
            self.fire('E3_throw_check')
            if not ctx.allow_hoist:
                raise ExtractionError('%s: call of may-throw %s in a non-hoistable position'
                                      % (self.cname, cname))
            if c == 'void':
                ctx.pre.append('%s;' % call)
                ctx.pre.append('if (__tmcg_thrown) %s' % self.zero_ret())
                return ''
            t = self.tmp()
            ctx.pre.append('%s%s %s = %s;' % (c, ' *' if rt_lvalue else '', t, call))
            ctx.pre.append('if (__tmcg_thrown) %s' % self.zero_ret())
            call = t
        if rt_lvalue:
            return '(*%s)' % call
        return call

    def x_CallExpr(self, n, ctx, stmt=False):
        cal = self.callee_ref(n)
        if cal.get('kind') != 'DeclRefExpr':
            raise ExtractionError('indirect call outside the subset')
        ref = cal['referencedDecl']
        name = self.fname(ref, cal)
        args = n['inner'][1:]
        if name == '__verif_assert':
            self.fire('E9_assert')
            c2 = Ctx(False)
            e = self.expr(args[0], c2)
            return '__CPROVER_assert(%s, "assert: %s")' % (e, e.replace('\\', '\\\\').replace('"', '\\"'))
        if name == '__builtin_expect':
            return self.expr(args[0], ctx)
        va = self.cfg.get('variadic', {}).get(name)
        if va is not None:
            # f(fixed..., n, a1..an)  ->  f_<n>(fixed..., a1..an); n must be a literal equal to the count
            npos = va
            cnt = self.strip_wrappers(args[npos])
            while cnt.get('kind') == 'ImplicitCastExpr':
                cnt = cnt['inner'][0]
            if cnt.get('kind') != 'IntegerLiteral':
                raise ExtractionError('%s: variadic count of %s is not a literal' % (self.cname, name))
            rest = args[npos + 1:]
            nlit = int(cnt['value'])
            if nlit > len(rest):
                # va_arg past the last argument is undefined behaviour: make it an obligation
                self.fire('E12_variadic_short')
                return '__CPROVER_assert(0, "variadic call of %s announces %d arguments but passes %d")' % (name, nlit, len(rest))
            if nlit < len(rest):
                # the callee reads only the announced number of arguments; the others are evaluated and ignored
                self.fire('E12_variadic_truncated')
                rest = rest[:nlit]
            al = [self.arg(a, ctx) for a in args[:npos]] + [self.arg(a, ctx) for a in rest]
            self.fire('E12_variadic')
            name = '%s_%d' % (name, len(rest))
            return self.finish_call(n, ctx, '%s(%s)' % (name, ', '.join(al)), name, stmt)
        if ref.get('kind') == 'ParmVarDecl' and name in self.cfg.get('fnptr_targets', {}):
            # E15: call through a function pointer parameter -> explicit dispatch over the functions the group lists
            # as its possible targets (CBMC's own pointer removal is not usable under --dfcc); a pointer outside
            # the list is an obligation.  Arguments must be side-effect free (they are duplicated).
            tg = self.cfg['fnptr_targets'][name]
            c2 = Ctx(False)
            al = [self.arg(a, c2) for a in args]
            self.fire('E15_fnptr_dispatch')
            e = '(__CPROVER_assert(0, "function pointer %s is one of the listed targets"), 0)' % name
            for t in reversed(tg):
                e = '(%s == %s ? %s(%s) : %s)' % (name, t, t, ', '.join(al), e)
            return e
        al = []
        if ref['kind'] == 'CXXMethodDecl':
            # static member function called without object: no self
            pass
        al += [self.arg(a, ctx) for a in args if a.get('kind') != 'CXXDefaultArgExpr']
        for a in args:
            if a.get('kind') == 'CXXDefaultArgExpr':
                al.append(self.default_arg(name, len(al)))
        return self.finish_call(n, ctx, '%s(%s)' % (name, ', '.join(al)), name, stmt)

    def default_arg(self, name, pos):
        da = self.cfg.get('default_args', {}).get(name)
        if da is None or str(pos) not in da:
            raise ExtractionError('default argument %d of %s not listed in cfg.default_args' % (pos, name))
        self.fire('E1_default_arg')
        return da[str(pos)]

    def obj_class(self, objnode):
        c, arr, ref = self.ty(objnode)
        if c.endswith(' *'):
            c = c[:-2]
        return c

    def x_CXXMemberCallExpr(self, n, ctx, stmt=False):
        me = n['inner'][0]
        while me.get('kind') in ('ImplicitCastExpr', 'ParenExpr'):
            me = me['inner'][0]
        if me['kind'] != 'MemberExpr':
            raise ExtractionError('member call through %s' % me['kind'])
        obj = me['inner'][0]
        method = me['name']
        if obj['kind'] == 'CXXThisExpr' or (self.strip_noop(obj)['kind'] == 'CXXThisExpr'):
            cls = self.self_class
            objp = 'self'
        else:
            cls = self.obj_class(self.strip_noop(obj))
            objp = self.expr(obj, ctx) if me.get('isArrow') else self.addr(obj, ctx)
        stl = cls.startswith(STL_C)
        mname = OPNAMES.get(method, method)
        args = n['inner'][1:]
        al = [self.arg(a, ctx, stl=stl) for a in args if a.get('kind') != 'CXXDefaultArgExpr']
        cname = '%s__%s' % (cls, mname)
        key = '%s::%s|%d' % (cls, method, len(al))
        for pat, cn in self.cfg.get('method_overloads', []):
            if re.search(pat, key + '|' + ','.join(self.argkind(a) for a in args)):
                cname = cn
                break
        for a in args:
            if a.get('kind') == 'CXXDefaultArgExpr':
                al.append(self.default_arg(cname, len(al)))
        self.fire('E6_method')
        return self.finish_call(n, ctx, '%s(%s)' % (cname, ', '.join([objp] + al)), cname, stmt)

    def argkind(self, a):
        a0 = self.strip_wrappers(a)
        try:
            c, arr, ref = self.ty(a0)
        except ExtractionError:
            return '?'
        if arr and c == 'char':
            return 'cstr'
        return {'char *': 'cstr', 'char': 'char', 'str_t': 'str'}.get(c, re.sub(r'\W+', '_', c))

    def stream_chain(self, n, ctx, op):
        """flatten a << b << c   ->  [stream_lvalue_node, operands...]"""
        items = []
        cur = n
        while True:
            c0 = self.strip_noop(cur)
            if c0.get('kind') == 'CXXOperatorCallExpr':
                cal = self.callee_ref(c0)
                if cal.get('referencedDecl', {}).get('name') == op:
                    items.append(c0['inner'][2])
                    cur = c0['inner'][1]
                    continue
            if c0.get('kind') == 'CXXMemberCallExpr':
                # out << x  where operator<< is a member of ostream (integers)
                me = c0['inner'][0]
                if me.get('kind') == 'MemberExpr' and me.get('name') == op:
                    items.append(c0['inner'][1])
                    cur = me['inner'][0]
                    continue
            break
        items.reverse()
        return cur, items

    def x_CXXOperatorCallExpr(self, n, ctx, stmt=False):
        cal = self.callee_ref(n)
        opname = cal['referencedDecl']['name']
        args = n['inner'][1:]
        a0c = self.obj_class(args[0]) if args and args[0].get('type') else ''
        if opname in ('operator<<', 'operator>>') and a0c == 'ios_t':
            stream, items = self.stream_chain(n, ctx, opname)
            sp = self.addr(stream, ctx)
            calls = []
            for it in items:
                calls.append(self.stream_item(sp, it, ctx, opname == 'operator<<'))
            self.fire('E7_stream')
            if any(c.split('(')[0] in self.may_throw for c in calls):
                # extraction may throw: nothing after a throwing extraction is evaluated
                if not (stmt and ctx.allow_hoist):
                    raise ExtractionError('%s: throwing stream extraction used as a value' % self.cname)
                self.uses_thrown = True
                for c in calls:
                    ctx.pre.append(c + ';')
                    if c.split('(')[0] in self.may_throw:
                        self.fire('E3_throw_check')
                        ctx.pre.append('if (__tmcg_thrown) %s' % self.zero_ret())
                return ''
            if stmt:
                return '; '.join(calls)
            return '(*(%s, %s))' % (', '.join(calls), sp)
        if opname not in OPNAMES:
            raise ExtractionError('operator %s outside the subset' % opname)
        cls = a0c
        stl = cls.startswith(STL_C)
        if cls.endswith('_iter'):
            al = [self.arg(a, ctx, stl=True) for a in args]
            self.fire('E6_operator')
            return '%s__%s(%s)' % (cls, OPNAMES[opname], ', '.join(al))
        objp = self.addr(args[0], ctx)
        al = [self.arg(a, ctx, stl=stl) for a in args[1:]]
        cname = '%s__%s' % (cls, OPNAMES[opname])
        if cls == 'str_t' or cls.startswith('map_'):
            cname += ''.join('_' + self.argkind(a) for a in args[1:])
        self.fire('E6_operator')
        return self.finish_call(n, ctx, '%s(%s)' % (cname, ', '.join([objp] + al)), cname, stmt)

    def stream_item(self, sp, it, ctx, put):
        it0 = self.strip_wrappers(it)
        inner = it0
        while inner.get('kind') == 'ImplicitCastExpr':
            inner = inner['inner'][0]
        if inner.get('kind') == 'DeclRefExpr' and inner['referencedDecl'].get('name') in ('endl', 'flush'):
            return 'ios_put_%s(%s)' % (inner['referencedDecl']['name'], sp)
        c, arr, ref = self.ty(it0)
        if arr and c == 'char':
            kind = 'cstr'
        else:
            kind = {'char *': 'cstr', 'mpz_ptr': 'mpz', 'mpz_srcptr': 'mpz', '__mpz_struct *': 'mpz',
                    'mpz_t': 'mpz', 'str_t': 'str', 'char': 'char', 'unsigned long': 'ulong',
                    'size_t': 'ulong', 'int': 'int', 'unsigned int': 'uint', 'long': 'long',
                    '_Bool': 'bool', 'unsigned char': 'uchar'}.get(c)
        if kind is None:
            kind = re.sub(r'\W+', '_', c)
        if put and kind == 'cstr':
            lit = it0
            while lit.get('kind') in ('ImplicitCastExpr',):
                lit = lit['inner'][0]
            if lit.get('kind') == 'StringLiteral':
                import zlib
                self.fire('E7_literal')
                return 'ios_put_lit(%s, %s, 0x%08xUL)' % (sp, lit['value'], zlib.crc32(lit['value'].encode()) & 0xffffffff)
        if put:
            if kind == 'str' or not self.T.is_scalar(c) and kind not in ('cstr', 'mpz'):
                return 'ios_put_%s(%s, %s)' % (kind, sp, self.addr(it0, ctx))
            return 'ios_put_%s(%s, %s)' % (kind, sp, self.expr(it0, ctx))
        if kind == 'mpz':
            return 'ios_get_mpz(%s, %s)' % (sp, self.expr(it0, ctx))
        return 'ios_get_%s(%s, %s)' % (kind, sp, self.addr(it0, ctx))


# --------------------------------------------------------------------------
# spec files
# --------------------------------------------------------------------------

def parse_spec(path):
    """
    //@ function <cname>
    //@ contract
    ...lines...
    //@ loop <k>
    ...lines...
    //@ end
    """
    specs = {}
    cur = None
    sect = None
    if not os.path.exists(path):
        return specs
    with open(path) as f:
        for line in f:
            m = re.match(r'^//@\s*(\w+)\s*(.*)$', line.rstrip('\n'))
            if m:
                kw, rest = m.group(1), m.group(2).strip()
                if kw == 'function':
                    cur = specs.setdefault(rest, {'contract': '', 'loops': {}})
                    sect = None
                elif kw == 'contract':
                    sect = 'contract'
                elif kw == 'loop':
                    sect = int(rest)
                    cur['loops'][sect] = ''
                elif kw == 'noloopcontracts':
                    cur['require_loop_contracts'] = False
                elif kw == 'end':
                    cur = None
                    sect = None
                continue
            if cur is None or sect is None:
                continue
            if sect == 'contract':
                cur['contract'] += line
            else:
                cur['loops'][sect] += line
    return specs


# --------------------------------------------------------------------------
# class layout
# --------------------------------------------------------------------------

def class_struct(cfg, relfile, cls, cname=None, skip=(), targs=None, extra_defs=()):
    docs = clang_dump(relfile, cls, extra_defs)
    T = Types(cfg)
    best = None
    if targs:
        def walk(d):
            nonlocal best
            if d.get('kind') == 'ClassTemplateSpecializationDecl' and d.get('name') == cls:
                a = ', '.join(c.get('type', {}).get('qualType', '?') for c in d.get('inner', [])
                              if c.get('kind') == 'TemplateArgument')
                if a == targs and d.get('completeDefinition', True):
                    best = d
            for c in d.get('inner', []):
                if c.get('kind') in ('ClassTemplateDecl', 'ClassTemplateSpecializationDecl'):
                    walk(c)
        for d in docs:
            walk(d)
        docs = []
    for d in docs:
        if d.get('kind') in ('CXXRecordDecl', 'ClassTemplateSpecializationDecl') and d.get('name') == cls.split('::')[-1] \
                and d.get('completeDefinition'):
            best = d
            break
        if d.get('kind') == 'ClassTemplateDecl':
            for c in d.get('inner', []):
                if c.get('kind') == 'CXXRecordDecl' and c.get('completeDefinition'):
                    best = c
    if best is None:
        raise ExtractionError('class %s not found in %s' % (cls, relfile))
    lines = []
    for b in best.get('bases', []):
        bname = b['type']['qualType']
        bs = class_struct(cfg, relfile, bname, None, skip, None, extra_defs)
        inner = bs[bs.index('{') + 1: bs.rindex('}')].strip('\n')
        lines.append('  /* fields of base class %s (flattened) */' % bname)
        lines.append(inner)
    for c in best.get('inner', []):
        if c.get('kind') == 'FieldDecl':
            if c['name'] in skip:
                continue
            try:
                ct, arr, ref = T.ctype(c['type']['qualType'], c['type'].get('desugaredQualType'))
            except ExtractionError:
                lines.append('  /* field %s : %s not representable, omitted */' % (c['name'], c['type']['qualType']))
                continue
            lines.append('  %s %s%s%s;' % (ct, '*' if ref else '', c['name'], arr))
    cn = cname or cls
    return 'struct %s {\n%s\n};\n' % (cn, '\n'.join(lines))


# --------------------------------------------------------------------------
# top level
# --------------------------------------------------------------------------

def find_function(relfile, qualname, selector=None, extra_defs=(), filt=None):
    docs = clang_dump(relfile, filt or qualname, extra_defs)
    short = qualname.split('::')[-1]
    cands = []
    statics = set()

    def visit(d, targs=''):
        if d.get('kind') == 'CXXMethodDecl' and d.get('name') == short and d.get('storageClass') == 'static':
            statics.add(d['id'])
        if d.get('kind') in ('FunctionDecl', 'CXXMethodDecl', 'CXXConstructorDecl') and d.get('name') == short and has_body(d):
            d['_targs'] = targs
            cands.append(d)
        if d.get('kind') == 'ClassTemplateSpecializationDecl':
            targs = '@<' + ', '.join(c.get('type', {}).get('qualType', '?') for c in d.get('inner', [])
                                     if c.get('kind') == 'TemplateArgument') + '>'
        if d.get('kind') == 'ClassTemplateDecl':
            targs = '@<pattern>'
        if d.get('kind') in ('FunctionTemplateDecl', 'ClassTemplateDecl', 'ClassTemplateSpecializationDecl',
                             'CXXRecordDecl', 'NamespaceDecl'):
            for c in d.get('inner', []):
                visit(c, targs)
    for d in docs:
        visit(d)
    if selector:
        # the selector is matched against "<function type> @<template arguments of the enclosing class>"
        cands = [d for d in cands if re.search(selector, d['type']['qualType'] + ' ' + d.get('_targs', ''))]
    else:
        cands = [d for d in cands if d.get('_targs') != '@<pattern>' or len(cands) == 1]
    # de-duplicate (template pattern vs instantiation are different nodes; identical ids are the same)
    seen = {}
    for d in cands:
        seen.setdefault(d['id'], d)
    cands = list(seen.values())
    if not cands:
        raise ExtractionError('function %s (selector %r) not found in %s' % (qualname, selector, relfile))
    if len(cands) > 1:
        raise ExtractionError('function %s ambiguous in %s: %s' %
                              (qualname, relfile, [d['type']['qualType'] for d in cands]))
    if cands[0].get('previousDecl') in statics or cands[0]['id'] in statics:
        cands[0]['storageClass'] = 'static'
    return cands[0]


def source_pos(node, relfile):
    off = node.get('range', {}).get('begin', {}).get('offset')
    if off is None:
        return None
    with open(os.path.join(REPO, relfile), 'rb') as f:
        data = f.read()
    return data[:off].count(b'\n') + 1


def source_text(node, relfile):
    b = node.get('range', {}).get('begin', {}).get('offset')
    e = node.get('range', {}).get('end', {}).get('offset')
    with open(os.path.join(REPO, relfile), 'rb') as f:
        data = f.read()
    return data[b:e + 1]


def extract(cfg, target, specs):
    """target: {file, name, cname, selector?, self?} -> dict(text, sig, rules, line, sha)"""
    node = find_function(target['file'], target['name'], target.get('selector'),
                         tuple(target.get('defs', ())), target.get('filter'))
    cname = target['cname']
    selfcls = target.get('self')
    if node.get('kind') == 'CXXMethodDecl' and node.get('storageClass') == 'static':
        selfcls = None   # static member function: no implicit object
    em = Emitter(cfg, node, cname, selfcls, specs.get(cname))
    sig, text = em.function()
    exp = target.get('rules', {})
    for r, cnt in exp.items():
        if em.rules.get(r, 0) < cnt:
            raise ExtractionError('%s: rule %s expected to fire >= %d times, fired %d'
                                  % (cname, r, cnt, em.rules.get(r, 0)))
    src = source_text(node, target['file'])
    return {
        'cname': cname, 'sig': sig, 'text': text, 'rules': em.rules, 'loops': em.loopn,
        'file': target['file'], 'line': source_pos(node, target['file']),
        'sha': hashlib.sha256(src).hexdigest()[:16],
    }


def extract_typedef_text(relheader, name):
    """verbatim text of `typedef struct|enum { ... } name;` from a header of /repo, as C (bool -> _Bool)"""
    with open(os.path.join(REPO, relheader)) as f:
        txt = f.read()
    m2 = re.search(r'\benum\s+%s\s*\{[^}]*\}\s*;' % re.escape(name), txt)
    if m2:
        body = re.sub(r'//[^\n]*', '', m2.group(0))
        return body + '\ntypedef enum %s %s;\n' % (name, name)
    m = re.search(r'\}\s*%s\s*;' % re.escape(name), txt)
    if not m:
        raise ExtractionError('typedef %s not found in %s' % (name, relheader))
    end = m.end()
    depth = 0
    i = m.start()
    while i >= 0:
        if txt[i] == '}':
            depth += 1
        elif txt[i] == '{':
            depth -= 1
            if depth == 0:
                break
        i -= 1
    head = txt.rfind('typedef', 0, i)
    if head < 0 or not re.match(r'typedef\s+(struct|enum)\s*(\w+\s*)?$', txt[head:i].strip() + ''):
        raise ExtractionError('typedef %s in %s is not a plain struct/enum typedef' % (name, relheader))
    body = txt[head:end]
    body = re.sub(r'//[^\n]*', '', body)
    body = re.sub(r'\bbool\b', '_Bool', body)
    return body + '\n'


def extract_global(cfg, relfile, name):
    """a namespace-scope constant table (array of integer literals or a string literal) -> C definition"""
    docs = clang_dump(relfile, name)
    T = Types(cfg)
    for d in docs:
        if d.get('kind') == 'VarDecl' and d.get('name') == name and d.get('inner'):
            c, arr, ref = T.ctype(d['type']['qualType'], d['type'].get('desugaredQualType'))
            ini = d['inner'][0]
            em = Emitter(cfg, {'type': {'qualType': 'void ()'}}, name)

            def lit(n):
                while n.get('kind') in ('ImplicitCastExpr', 'ConstantExpr', 'ParenExpr'):
                    n = n['inner'][0]
                return em.expr(n, Ctx(False))
            if ini.get('kind') == 'InitListExpr':
                vals = [lit(x) for x in ini.get('inner', [])]
                return 'static const %s %s%s = { %s };\n' % (c, name, arr, ', '.join(vals))
            if ini.get('kind') == 'StringLiteral':
                return 'static const %s %s%s = %s;\n' % (c, name, arr, ini['value'])
            return 'static const %s %s%s = %s;\n' % (c, name, arr, lit(ini))
    raise ExtractionError('global %s not found in %s' % (name, relfile))


if __name__ == '__main__':
    import sys
    cfg = json.load(open(os.path.join(VERIF, 'contracts', 'common.json')))
    t = {'file': sys.argv[1], 'name': sys.argv[2], 'cname': sys.argv[2].split('::')[-1]}
    if len(sys.argv) > 3:
        t['selector'] = sys.argv[3]
    if len(sys.argv) > 4:
        t['filter'] = sys.argv[4]
    if '::' in sys.argv[2]:
        t['self'] = sys.argv[2].split('::')[0]
        cfg['classes'] = cfg.get('classes', []) + [t['self']]
    r = extract(cfg, t, {})
    print(r['text'])
    print('/* rules:', r['rules'], 'line', r['line'], '*/')
