/* gmp_exact.h -- EXACT small-integer model of the GMP entry points, for the
 * bounded lemmas about number-theoretic results (C09).
 *
 * An mpz_t holds an exact signed integer in a bit-vector of EXB bits; operands
 * of interest have at most EXW bits (EXW = 5 or 6), EXB = 2*EXW+6 leaves room
 * for products and the accumulating exponents of the square-root code.  Every
 * operation ASSERTS that its exact result fits ("model limit": running into it
 * makes the run UNDECIDED, never a violation and never a silent wrap).  All
 * loops of the model are bounded by EXB and are unwound with unwinding
 * assertions.  Everything proved against this model is BOUNDED by the stated
 * operand widths and is never counted as proved.
 */
#ifndef VERIF_GMP_EXACT_H
#define VERIF_GMP_EXACT_H
#include "base.h"
#ifndef EXW
#define EXW 5
#endif
#define EXB (2 * EXW + 6)
/* loop bounds of the model (each is checked by a "model limit" assertion) */
#define EX_EUCLID (2 * EXW + 2)   /* Euclid steps on operands below 2^(EXW+1): Fibonacci bound */
#define EX_EXPBITS (EXW + 5)      /* exponent length handled by the reference power */
typedef signed __CPROVER_bitvector[EXB] ex_t;
#define EX_MAX ((ex_t)((((long)1) << (EXB - 2)) - 1))
#define EX_FITS(x) ((x) <= (long)EX_MAX && (x) >= -(long)EX_MAX)

typedef struct { ex_t v; } __mpz_struct;
typedef __mpz_struct mpz_t[1];
typedef __mpz_struct *mpz_ptr;
typedef const __mpz_struct *mpz_srcptr;
#define V(x) ((x)->v)

static inline ex_t ex_abs(ex_t x) { return x < 0 ? (ex_t)-x : x; }
static inline ex_t ex_chk(long x) { __CPROVER_assert(EX_FITS(x), "model limit: exact integer model overflow"); return (ex_t)x; }
/* floor-mod with non-negative result, m != 0 */
static inline ex_t ex_mod(ex_t a, ex_t m) { ex_t am = ex_abs(m); ex_t r = a % am; if (r < 0) r = (ex_t)(r + am); return r; }

static inline void mpz_init(mpz_ptr x) { x->v = 0; }
static inline void mpz_clear(mpz_ptr x) { (void)x; }
static inline void mpz_set(mpz_ptr r, mpz_srcptr a) { r->v = a->v; }
static inline void mpz_init_set(mpz_ptr r, mpz_srcptr a) { r->v = a->v; }
static inline void mpz_set_ui(mpz_ptr r, unsigned long u) { __CPROVER_assert(u <= (unsigned long)(long)EX_MAX, "model limit: exact integer model overflow"); r->v = (ex_t)u; }
static inline void mpz_init_set_ui(mpz_ptr r, unsigned long u) { mpz_set_ui(r, u); }
static inline void mpz_set_si(mpz_ptr r, long s) { r->v = ex_chk(s); }
static inline void mpz_init_set_si(mpz_ptr r, long s) { r->v = ex_chk(s); }
static inline unsigned long mpz_get_ui(mpz_srcptr a) { return (unsigned long)(long)ex_abs(a->v); }
static inline void mpz_neg(mpz_ptr r, mpz_srcptr a) { r->v = (ex_t)-a->v; }
static inline void mpz_abs(mpz_ptr r, mpz_srcptr a) { r->v = ex_abs(a->v); }
static inline void mpz_add(mpz_ptr r, mpz_srcptr a, mpz_srcptr b) { r->v = ex_chk((long)a->v + (long)b->v); }
static inline void mpz_sub(mpz_ptr r, mpz_srcptr a, mpz_srcptr b) { r->v = ex_chk((long)a->v - (long)b->v); }
static inline void mpz_add_ui(mpz_ptr r, mpz_srcptr a, unsigned long u) { __CPROVER_assert(u <= (unsigned long)(long)EX_MAX, "model limit: exact integer model overflow"); r->v = ex_chk((long)a->v + (long)u); }
static inline void mpz_sub_ui(mpz_ptr r, mpz_srcptr a, unsigned long u) { __CPROVER_assert(u <= (unsigned long)(long)EX_MAX, "model limit: exact integer model overflow"); r->v = ex_chk((long)a->v - (long)u); }
static inline void mpz_mul(mpz_ptr r, mpz_srcptr a, mpz_srcptr b) { r->v = ex_chk((long)a->v * (long)b->v); }
static inline void mpz_mul_2exp(mpz_ptr r, mpz_srcptr a, unsigned long n) { __CPROVER_assert(n < EXB, "model limit: shift"); r->v = ex_chk((long)a->v * (((long)1) << n)); }
static inline void mpz_fdiv_q_2exp(mpz_ptr r, mpz_srcptr a, unsigned long n)
{ __CPROVER_assert(n < EXB, "model limit: shift"); long d = ((long)1) << n; long q = (long)a->v / d; if (((long)a->v % d) != 0 && a->v < 0) q = q - 1; r->v = (ex_t)q; }
static inline void mpz_tdiv_q_2exp(mpz_ptr r, mpz_srcptr a, unsigned long n) { __CPROVER_assert(n < EXB, "model limit: shift"); r->v = (ex_t)((long)a->v / (((long)1) << n)); }
static inline int mpz_sgn(mpz_srcptr a) { return a->v < 0 ? -1 : (a->v > 0 ? 1 : 0); }
static inline int mpz_cmp(mpz_srcptr a, mpz_srcptr b) { return a->v < b->v ? -1 : (a->v > b->v ? 1 : 0); }
static inline int mpz_cmpabs(mpz_srcptr a, mpz_srcptr b) { ex_t x = ex_abs(a->v), y = ex_abs(b->v); return x < y ? -1 : (x > y ? 1 : 0); }
static inline int mpz_cmp_ui(mpz_srcptr a, unsigned long u) { if (u > (unsigned long)(long)EX_MAX) return -1; return a->v < (ex_t)u ? -1 : (a->v > (ex_t)u ? 1 : 0); }
static inline int mpz_cmp_si(mpz_srcptr a, long s) { return (long)a->v < s ? -1 : ((long)a->v > s ? 1 : 0); }
static inline int mpz_odd_p(mpz_srcptr a) { return (int)(ex_abs(a->v) & 1); }
static inline int mpz_even_p(mpz_srcptr a) { return !(int)(ex_abs(a->v) & 1); }
/* two's complement bit test as GMP defines it (infinite sign extension) */
static inline int mpz_tstbit(mpz_srcptr a, unsigned long i) { if (i >= EXB - 1) return a->v < 0; return (int)(((long)a->v >> i) & 1); }
static inline size_t mpz_sizeinbase(mpz_srcptr a, int base)
{
  __CPROVER_assert(base == 2, "model limit: sizeinbase is modelled for base 2");
  ex_t x = ex_abs(a->v); size_t n = 0;
  for (int k = 0; k < EXB; k++) if (x != 0) { n++; x = (ex_t)(x >> 1); }
  return n ? n : 1;
}
static inline void mpz_mod(mpz_ptr r, mpz_srcptr a, mpz_srcptr m)
{ __CPROVER_assert(m->v != 0, "mpz_mod: modulus is not zero"); r->v = ex_mod(a->v, m->v); }
static inline int mpz_congruent_ui_p(mpz_srcptr a, unsigned long c, unsigned long d)
{ __CPROVER_assert(d != 0 && d <= (unsigned long)(long)EX_MAX && c <= (unsigned long)(long)EX_MAX, "model limit"); return ex_mod((ex_t)((long)a->v - (long)c), (ex_t)d) == 0; }
static inline int mpz_congruent_p(mpz_srcptr a, mpz_srcptr c, mpz_srcptr d)
{ if (d->v == 0) return a->v == c->v; return ex_mod(ex_chk((long)a->v - (long)c->v), d->v) == 0; }
static inline void mpz_gcd(mpz_ptr r, mpz_srcptr a, mpz_srcptr b)
{ ex_t x = ex_abs(a->v), y = ex_abs(b->v); for (int k = 0; k < EX_EUCLID; k++) if (y != 0) { ex_t t = x % y; x = y; y = t; }
  __CPROVER_assert(y == 0, "model limit: Euclid loop bound"); r->v = x; }
/* reference modular exponentiation: right-to-left square and multiply, exact; e >= 0 */
static inline ex_t ex_powm(ex_t b, ex_t e, ex_t m)
{
  ex_t am = ex_abs(m); ex_t r = (ex_t)(1 % am); ex_t x = ex_mod(b, am);
  for (int k = 0; k < EX_EXPBITS; k++) if (e != 0) { if (e & 1) r = ex_mod(ex_chk((long)r * (long)x), am); x = ex_mod(ex_chk((long)x * (long)x), am); e = (ex_t)(e >> 1); }
  __CPROVER_assert(e == 0, "model limit: exponent longer than EX_EXPBITS bits");
  return r;
}
static inline int ex_invert(ex_t a, ex_t m, ex_t *out)
{ /* extended Euclid on (a mod |m|, |m|) */
  ex_t am = ex_abs(m); ex_t r0 = am, r1 = ex_mod(a, am); long t0 = 0, t1 = 1;
  for (int k = 0; k < EX_EUCLID; k++) if (r1 != 0) { ex_t q = r0 / r1; ex_t r2 = (ex_t)(r0 - q * r1); long t2 = t0 - (long)q * t1; r0 = r1; r1 = r2; t0 = t1; t1 = t2; }
  __CPROVER_assert(r1 == 0, "model limit: Euclid loop bound");
  if (r0 != 1) return am == 1 ? (*out = 0, 1) : 0;
  *out = ex_mod(ex_chk(t0), am); return 1;
}
static inline int mpz_invert(mpz_ptr r, mpz_srcptr a, mpz_srcptr m)
{ __CPROVER_assert(m->v != 0, "mpz_invert: modulus is not zero"); ex_t o; if (!ex_invert(a->v, m->v, &o)) return 0; r->v = o; return 1; }
static inline void mpz_powm(mpz_ptr r, mpz_srcptr b, mpz_srcptr e, mpz_srcptr m)
{
  __CPROVER_assert(m->v != 0, "mpz_powm: modulus is not zero");
  if (e->v >= 0) { r->v = ex_powm(b->v, e->v, m->v); return; }
  ex_t inv; int ok = ex_invert(b->v, m->v, &inv);
  __CPROVER_assert(ok, "mpz_powm: negative exponent needs an invertible base (GMP raises a division by zero)");
  r->v = ex_powm(inv, (ex_t)-e->v, m->v);
}
static inline void mpz_powm_ui(mpz_ptr r, mpz_srcptr b, unsigned long e, mpz_srcptr m)
{ __CPROVER_assert(m->v != 0 && e <= (unsigned long)(long)EX_MAX, "mpz_powm_ui: modulus is not zero"); r->v = ex_powm(b->v, (ex_t)e, m->v); }
static inline void mpz_powm_sec(mpz_ptr r, mpz_srcptr b, mpz_srcptr e, mpz_srcptr m)
{
  __CPROVER_assert(e->v > 0, "mpz_powm_sec: exponent is positive (manual)");
  __CPROVER_assert((ex_abs(m->v) & 1) == 1, "mpz_powm_sec: modulus is odd (manual)");
  r->v = ex_powm(b->v, e->v, m->v);
}
/* Jacobi symbol (a/n), n odd positive: binary algorithm */
static inline int mpz_jacobi(mpz_srcptr a_, mpz_srcptr n_)
{
  ex_t n = n_->v; __CPROVER_assert(n > 0 && (n & 1) == 1, "mpz_jacobi: denominator odd and positive (manual)");
  ex_t a = ex_mod(a_->v, n); int t = 1;
  for (int k = 0; k < 3 * EXW + 4; k++) if (a != 0)
  {
    if ((a & 1) == 0) { a = (ex_t)(a >> 1); ex_t r = n & 7; if (r == 3 || r == 5) t = -t; }
    else { ex_t tmp = a; a = n; n = tmp; if ((a & 3) == 3 && (n & 3) == 3) t = -t; a = ex_mod(a, n); }
  }
  __CPROVER_assert(a == 0, "model limit: Jacobi loop bound");
  return n == 1 ? t : 0;
}
/* exact primality for the small range */
static inline int ex_is_prime(ex_t x) { if (x < 2) return 0; for (ex_t d = 2; d < (1 << ((EXW + 2) / 2 + 1)); d++) if (d * d <= x && x % d == 0) return 0; return 1; }

_Bool nondet_bool(void); unsigned long nondet_ulong(void);
#endif
