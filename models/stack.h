/* stack.h -- containers of the card classes (after the generated structs of
 * VTMF_Card and VTMF_CardSecret).  The member functions of TMCG_Stack<> and
 * TMCG_StackSecret<> themselves (size, operator[], push, clear, import) are
 * EXTRACTED from the library headers; only std::vector, std::pair and the
 * trivial constructors are modelled here. */
#ifndef VERIF_STACK_H
#define VERIF_STACK_H
typedef struct { size_t first; VTMF_CardSecret second; } pair_ulong_VTMF_CardSecret;
static inline pair_ulong_VTMF_CardSecret pair_ulong_VTMF_CardSecret__make_2(size_t a, VTMF_CardSecret *b)
{ pair_ulong_VTMF_CardSecret r; r.first = a; r.second = *b; return r; }
static inline void pair_ulong_VTMF_CardSecret__ctor_0(pair_ulong_VTMF_CardSecret *p) { p->first = 0; p->second.r->v = 0; }
VECS_DECL(vec_pair_ulong_VTMF_CardSecret, pair_ulong_VTMF_CardSecret)
VECS_DECL(vec_VTMF_Card, VTMF_Card)
static inline void VTMF_Card__ctor_0(VTMF_Card *c) { c->c_1->v = 0; c->c_2->v = 0; }          /* mpz_init, mpz_init */
static inline void VTMF_CardSecret__ctor_0(VTMF_CardSecret *c) { c->r->v = 0; }
#endif
