/* stl.h -- small exact models of the std:: containers the extracted text uses.
 *
 * Elements live in a separately allocated array (DESIGN.md 2.3: embedded
 * arrays made cvc5 time out).  operator[] ASSERTS i < size: the real
 * libstdc++ operator[] has undefined behaviour there, so the obligation is
 * stricter than the library.  The capacity is a model limit: running into it
 * is reported as UNDECIDED (exit 2), never as a violation. */
#ifndef VERIF_STL_H
#define VERIF_STL_H
#include "base.h"

#define VEC_DECL(NAME, T)                                                        \
  typedef struct { T *data; size_t size; size_t cap; } NAME;                     \
  static inline size_t NAME##__size(NAME *v) { return v->size; }                 \
  static inline _Bool NAME##__empty(NAME *v) { return v->size == 0; }            \
  static inline void NAME##__clear(NAME *v) { v->size = 0; }                     \
  static inline void NAME##__push_back(NAME *v, T x)                             \
  { __CPROVER_assert(v->size < v->cap, "model limit: vector capacity");          \
    v->data[v->size] = x; v->size = v->size + 1; }                               \
  static inline T *NAME##__op_index(NAME *v, size_t i)                           \
  { __CPROVER_assert(i < v->size, "vector index in range");                      \
    return &v->data[i]; }

VEC_DECL(vec_ulong, size_t)
/* std::string: concrete character buffer plus an abstract identity `absid`
 * used when the string only travels from a stream into a hash or a map key */
typedef struct { char *data; size_t size; size_t cap; long absid; } str_t;
VEC_DECL(vec_u8, unsigned char)

#endif
