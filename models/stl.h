/* stl.h -- small exact models of the std:: containers the extracted text uses.
 *
 * Elements live in a separately allocated array (DESIGN.md 2.3: embedded
 * arrays made cvc5 time out).  operator[] ASSERTS i < size: the real
 * libstdc++ operator[] has undefined behaviour there, so the obligation is
 * stricter than the library.  The capacity is a model limit: running into it
 * is reported as UNDECIDED (exit 2), never as a violation. */
#ifndef VERIF_STL_H
#define VERIF_STL_H
#include "base.h"

#ifndef VEC_LOCAL_CAP
#define VEC_LOCAL_CAP 512
#endif
/* vector of class objects: elements are copied by value (the copy constructors of the card classes copy
 * the integers; an mpz_t of the abstract model is a plain value) */
#define VECS_DECL(NAME, T)                                                       \
  typedef struct { T *data; size_t size; size_t cap; } NAME;                     \
  static inline size_t NAME##__size(NAME *v) { return v->size; }                 \
  static inline void NAME##__clear(NAME *v) { v->size = 0; }                     \
  static inline void NAME##__swap(NAME *v, NAME *w) { NAME t = *v; *v = *w; *w = t; } \
  static inline void NAME##__push_back(NAME *v, T *x)                            \
  { __CPROVER_assert(v->size < v->cap, "model limit: vector capacity");          \
    v->data[v->size] = *x; v->size = v->size + 1; }                              \
  static inline T *NAME##__op_index(NAME *v, size_t i)                           \
  { __CPROVER_assert(i < v->size, "vector index in range");                      \
    return &v->data[i]; }                                                        \
  static inline void NAME##__ctor_0(NAME *v)                                     \
  { v->data = (T *)__verif_new_array(sizeof(T), VEC_LOCAL_CAP); v->size = 0; v->cap = VEC_LOCAL_CAP; } \
  /* vector(n): n value-initialised elements */                                  \
  static inline NAME NAME##__make_1(size_t n)                                    \
  { NAME v; __CPROVER_assert(n <= VEC_LOCAL_CAP, "model limit: vector capacity"); \
    v.data = (T *)__verif_new_array(sizeof(T), VEC_LOCAL_CAP); v.size = n; v.cap = VEC_LOCAL_CAP; return v; } \
  /* resize(n): the size becomes n (new elements value-initialised); reserve(n): the size does NOT change */ \
  static inline void NAME##__resize(NAME *v, size_t n)                           \
  { __CPROVER_assert(n <= v->cap, "model limit: vector capacity"); v->size = n; } \
  static inline void NAME##__reserve(NAME *v, size_t n) { (void)v; (void)n; }

#define VEC_DECL(NAME, T)                                                        \
  typedef struct { T *data; size_t size; size_t cap; } NAME;                     \
  static inline size_t NAME##__size(NAME *v) { return v->size; }                 \
  static inline _Bool NAME##__empty(NAME *v) { return v->size == 0; }            \
  static inline void NAME##__clear(NAME *v) { v->size = 0; }                     \
  static inline void NAME##__push_back(NAME *v, T x)                             \
  { __CPROVER_assert(v->size < v->cap, "model limit: vector capacity");          \
    v->data[v->size] = x; v->size = v->size + 1; }                               \
  static inline T *NAME##__op_index(NAME *v, size_t i)                           \
  { __CPROVER_assert(i < v->size, "vector index in range");                      \
    return &v->data[i]; }                                                        \
  /* default construction of a local vector: empty, backing store of VEC_LOCAL_CAP elements */ \
  static inline void NAME##__ctor_0(NAME *v)                                     \
  { v->data = (T *)__verif_new_array(sizeof(T), VEC_LOCAL_CAP); v->size = 0; v->cap = VEC_LOCAL_CAP; }

VEC_DECL(vec_ulong, size_t)
/* std::vector<bool>: one _Bool cell per element; operator[] hands out the proxy std::_Bit_reference (a pointer to the
 * cell) and ASSERTS the index, which libstdc++ leaves undefined */
typedef struct { _Bool *data; size_t size; size_t cap; } vec_bool;
typedef struct { _Bool *p; } bitref_t;
static inline void vec_bool__ctor_2(vec_bool *v, size_t n, const _Bool *xp)
{ __CPROVER_assert(n <= VEC_LOCAL_CAP, "model limit: vector capacity");
  v->data = (_Bool *)__verif_new_array(sizeof(_Bool), VEC_LOCAL_CAP); v->size = n; v->cap = VEC_LOCAL_CAP;
  __CPROVER_array_set(v->data, *xp); }   /* every cell (no loop) */
static inline size_t vec_bool__size(vec_bool *v) { return v->size; }
static inline bitref_t vec_bool__op_index(vec_bool *v, size_t i)
{ __CPROVER_assert(i < v->size, "vector index in range"); bitref_t r; r.p = &v->data[i < v->size ? i : 0]; return r; }
static inline _Bool bitref_t__op_bool(bitref_t *r) { return *r->p; }
static inline bitref_t *bitref_t__op_assign(bitref_t *r, _Bool x) { *r->p = x; return r; }
/* std::string: concrete character buffer plus an abstract identity `absid`
 * used when the string only travels from a stream into a hash or a map key */
typedef struct { char *data; size_t size; size_t cap; long absid; } str_t;
static inline size_t str_t__size(str_t *s) { return s->size; }
static inline size_t str_t__length(str_t *s) { return s->size; }
/* std::string(const char *): the characters up to the first NUL of the C string -- how many that are is not known to
 * the model (contents of the source are not tracked through c_str()): an arbitrary length within the model capacity;
 * append(ptr, n) appends n characters; data() is the buffer */
#ifndef STR_CSTR_CAP
#define STR_CSTR_CAP 128
#endif
static inline void str_t__ctor_1(str_t *s, const char *cstr)
{ (void)cstr; size_t n; __CPROVER_assume(n <= STR_CSTR_CAP); s->data = (char *)__verif_new_array(1, STR_CSTR_CAP + 64); s->size = n; s->cap = STR_CSTR_CAP + 64; s->absid = 0; }
static inline str_t *str_t__append(str_t *s, const char *p, size_t n)
{ __CPROVER_assert(n == 0 || __CPROVER_r_ok(p, n), "string::append: source holds n characters");
  __CPROVER_assert(n <= s->cap - s->size, "model limit: string capacity"); s->size = s->size + n; return s; }
static inline const char *str_t__data(str_t *s) { return s->data; }
static inline _Bool str_t__empty(str_t *s) { return s->size == 0; }
static inline void str_t__clear(str_t *s) { s->size = 0; }
static inline char *str_t__op_index(str_t *s, size_t i)
{ __CPROVER_assert(i < s->size, "string index in range"); return &s->data[i]; }
static inline str_t *str_t__op_addassign_char(str_t *s, char c)
{ __CPROVER_assert(s->size < s->cap, "model limit: string capacity"); s->data[s->size] = c; s->size = s->size + 1; return s; }
static inline char *str_t__op_index_unsigned_long(str_t *s, size_t i) { return str_t__op_index(s, i); }
static inline char *str_t__op_index_size_t(str_t *s, size_t i) { return str_t__op_index(s, i); }
/* string iterators and the erase(remove_if(begin, end, pred), end) idiom */
typedef struct { str_t *s; size_t i; } str_t_iter;
static inline str_t_iter str_t__begin(str_t *s) { str_t_iter r; r.s = s; r.i = 0; return r; }
static inline str_t_iter str_t__end(str_t *s) { str_t_iter r; r.s = s; r.i = s->size; return r; }
#ifndef STR_LOOP_MAX
#define STR_LOOP_MAX 128
#endif
/* std::remove_if: keeps, in order, the characters for which pred is false; returns the new logical end */
static inline str_t_iter remove_if(str_t_iter first, str_t_iter last, _Bool (*pred)(char))
{
  __CPROVER_assert(first.s == last.s && first.i <= last.i && last.i <= first.s->size, "remove_if: valid range of one string");
  size_t w = first.i;
  for (size_t k = first.i; k < last.i; k++) { char ch = first.s->data[k]; if (!pred(ch)) { first.s->data[w] = ch; w = w + 1; } }
  str_t_iter r; r.s = first.s; r.i = w; return r;
}
static inline void str_t__erase(str_t *s, str_t_iter first, str_t_iter last)
{
  __CPROVER_assert(first.s == s && last.s == s && first.i <= last.i && last.i <= s->size, "erase: valid range of this string");
  size_t cnt = last.i - first.i;
  for (size_t k = last.i; k < s->size; k++) s->data[k - cnt] = s->data[k];
  s->size = s->size - cnt;
}
/* literals appended by the extracted text have at most 4 characters */
static inline str_t *str_t__op_addassign_cstr(str_t *s, const char *lit)
{
  if (lit[0] == 0) return s; str_t__op_addassign_char(s, lit[0]);
  if (lit[1] == 0) return s; str_t__op_addassign_char(s, lit[1]);
  if (lit[2] == 0) return s; str_t__op_addassign_char(s, lit[2]);
  if (lit[3] == 0) return s; str_t__op_addassign_char(s, lit[3]);
  __CPROVER_assert(lit[4] == 0, "model limit: literal longer than 4 characters");
  return s;
}
#ifdef VEC_U8_NOCONTENT
/* Content-free octet vector (memory-safety groups): sizes are exact, CONTENTS ARE ARBITRARY AT EVERY READ -- an
 * over-approximation of every possible content, sound for safety obligations and free of large arrays, so that
 * sizes range over all of size_t.  Writes are dropped.  (Two reads of one position may disagree: a failure that
 * depends on that is a false alarm and is examined by hand, never reported as is.) */
typedef struct { unsigned char *data; size_t size; size_t cap; } vec_u8;
unsigned char vec_u8__cell;   /* scratch cell every read goes through: list it in assigns clauses */
unsigned char nondet_uchar(void);
static inline size_t vec_u8__size(vec_u8 *v) { return v->size; }
static inline _Bool vec_u8__empty(vec_u8 *v) { return v->size == 0; }
static inline void vec_u8__clear(vec_u8 *v) { v->size = 0; }
static inline void vec_u8__push_back(vec_u8 *v, unsigned char x)
{ (void)x; __CPROVER_assert(v->size < v->cap, "model limit: vector capacity"); v->size = v->size + 1; }
static inline unsigned char *vec_u8__op_index(vec_u8 *v, size_t i)
{ __CPROVER_assert(i < v->size, "vector index in range"); vec_u8__cell = nondet_uchar(); return &vec_u8__cell; }
static inline void vec_u8__ctor_0(vec_u8 *v)
{ v->data = 0; v->size = 0; v->cap = VEC_LOCAL_CAP; }   /* no data object: contents are never stored */
#else
VEC_DECL(vec_u8, unsigned char)
#endif
/* iterators of an octet vector: (container, position).  Range operations ASSERT what the standard library
 * requires and does not check: both iterators belong to one container, first <= last <= end. */
typedef struct { vec_u8 *v; size_t i; } vec_u8_iter;
static inline vec_u8_iter vec_u8__begin(vec_u8 *v) { vec_u8_iter r; r.v = v; r.i = 0; return r; }
static inline vec_u8_iter vec_u8__end(vec_u8 *v) { vec_u8_iter r; r.v = v; r.i = v->size; return r; }
static inline vec_u8_iter vec_u8_iter__op_add(vec_u8_iter it, long n)
{ __CPROVER_assert(n >= 0 && it.i + (size_t)n >= it.i, "iterator arithmetic does not wrap");
  it.i = it.i + (size_t)n; return it; }
static inline void vec_u8__insert(vec_u8 *dst, vec_u8_iter pos, vec_u8_iter first, vec_u8_iter last)
{
  __CPROVER_assert(first.v == last.v, "insert: both source iterators belong to one container");
  __CPROVER_assert(first.i <= last.i && last.i <= first.v->size, "insert: source range lies inside the source container");
  __CPROVER_assert(pos.v == dst && pos.i == dst->size, "model limit: insert is modelled at end() only");
  size_t cnt = last.i - first.i;
  __CPROVER_assert(cnt <= dst->cap - dst->size, "model limit: vector capacity");
#if defined(VEC_U8_NOCONTENT)
  dst->size = dst->size + cnt;
#elif defined(VEC_U8_GHOST_INSERT)
  /* insert as an ASSUMED contract stated for the ghost indices (no copy loop, any range length): the octet at the
   * arbitrary position ghost_j of the range lands at old size + ghost_j, the octet at the arbitrary position ghost_k
   * below the old size keeps its value; everything else is arbitrary */
  { extern size_t ghost_j; size_t osz = dst->size;
    unsigned char keep = dst->data[ghost_k < osz ? ghost_k : 0];
    unsigned char moved = first.v->data[ghost_j < cnt ? first.i + ghost_j : first.i];
    if (cnt > 0) __CPROVER_havoc_object(dst->data);
    dst->size = osz + cnt;
    __CPROVER_assume(ghost_k < osz ==> dst->data[ghost_k] == keep);
    __CPROVER_assume(ghost_j < cnt ==> dst->data[osz + ghost_j] == moved); }
#elif defined(VEC_U8_ABSTRACT)
  /* abstract contents: the appended octets are arbitrary (over-approximation, sound for safety obligations) */
  if (cnt > 0) __CPROVER_havoc_object(dst->data);
  dst->size = dst->size + cnt;
#else
  for (size_t k = 0; k < cnt; k++) { dst->data[dst->size] = first.v->data[first.i + k]; dst->size = dst->size + 1; }
#endif
}
static inline void vec_u8__erase(vec_u8 *v, vec_u8_iter first, vec_u8_iter last)
{
  __CPROVER_assert(first.v == v && last.v == v, "erase: iterators belong to this container");
  __CPROVER_assert(first.i <= last.i && last.i <= v->size, "erase: range lies inside the container");
  size_t cnt = last.i - first.i;
#if defined(VEC_U8_NOCONTENT)
#elif defined(VEC_U8_ABSTRACT)
  if (cnt > 0) __CPROVER_havoc_object(v->data);
#else
  for (size_t k = last.i; k < v->size; k++) v->data[k - cnt] = v->data[k];
#endif
  v->size = v->size - cnt;
}

/* erase(position): the iterator must be dereferenceable (libstdc++ does not check) */
static inline void vec_u8__erase1(vec_u8 *v, vec_u8_iter pos)
{ __CPROVER_assert(pos.v == v && pos.i < v->size, "erase: position is a dereferenceable iterator of this container");
  vec_u8_iter last = pos; last.i = pos.i + 1; vec_u8__erase(v, pos, last); }

#endif
