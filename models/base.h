/* base.h -- common ghost state of all dependency models (trusted base).
 *
 * Nothing here is library code.  Everything the extracted text calls and
 * that is not itself extracted is either given a body here (exact small
 * model) or only a contract (assumed contract on a dependency, used through
 * --replace-call-with-contract).  DESIGN.md section 2.2 lists them. */
#ifndef VERIF_BASE_H
#define VERIF_BASE_H
#include <stddef.h>
#include <stdint.h>

#ifndef ULONG_MAX
#define ULONG_MAX (~0UL)
#endif
typedef long time_t;
typedef long ssize_t;
typedef uint8_t tmcg_openpgp_byte_t;

/* ---- exceptions (rule E3): a std:: exception in flight ----------------- */
enum { TMCG_EXC_none = 0, TMCG_EXC_invalid_argument = 1, TMCG_EXC_runtime_error = 2,
       TMCG_EXC_out_of_range = 3, TMCG_EXC_length_error = 4, TMCG_EXC_bad_alloc = 5 };
int __tmcg_thrown;

typedef struct gcry_mpi *gcry_mpi_t;
typedef unsigned int gcry_error_t;
/* ---- libgcrypt randomness levels ---------------------------------------- */
enum gcry_random_level { GCRY_WEAK_RANDOM = 0, GCRY_STRONG_RANDOM = 1, GCRY_VERY_STRONG_RANDOM = 2 };

/* ---- ghost draw log, sampled at one arbitrary index ---------------------
 * ghost_k is never assigned by any code: the verifier treats it as an
 * arbitrary index, so a fact proved about "the ghost_k-th draw" is proved
 * for every draw (DESIGN.md 2.3, ghost-index pattern). */
size_t draw_n;            /* number of draws made so far                   */
size_t ghost_k;           /* arbitrary, never assigned                     */
unsigned long ghost_val;  /* value returned by draw number ghost_k         */
unsigned long ghost_mod;  /* modulus requested by draw number ghost_k       */
unsigned long draw_last;  /* value returned by the most recent draw        */

/* ---- ghost log of the most recent fixed-base table precomputation (monitor of the call's arguments; written by
 * the contract of tmcg_mpz_fpowm_precompute when a caller uses it in place of the body) -------------------------- */
size_t ghost_pre_tab /* object number of the table */; size_t ghost_pre_t;

/* ---- heap (rule E5): new/delete, failure excluded ----------------------- */
void *malloc(size_t);
void free(void *);
static inline void *__verif_new(size_t sz) { void *p = malloc(sz); __CPROVER_assume(p != 0); return p; }
static inline void *__verif_new_array(size_t sz, size_t n)
{ __CPROVER_assert(n <= ((size_t)1 << 40) / (sz ? sz : 1), "model limit: new[] size"); void *p = malloc(sz * n); __CPROVER_assume(p != 0); return p; }
/* new T[n]() : value-initialised (zeroed).  The contents are not zeroed in the model (no group depends on them);
 * what is recorded is THAT the object is initialised, for the uninitialised-read obligations of C12_pubkey */
size_t ghost_zeroed_obj[4]; size_t ghost_zeroed_n;
static inline void *__verif_new_array_zero_fn(size_t sz, size_t n)
{ void *p = __verif_new_array(sz, n); if (ghost_zeroed_n < 4) ghost_zeroed_obj[ghost_zeroed_n] = __CPROVER_POINTER_OBJECT(p); ghost_zeroed_n = ghost_zeroed_n + 1; return p; }
#define __verif_new_array_zero(sz, n) __verif_new_array_zero_fn((sz), (n))
static inline void __verif_delete(void *p) { free(p); }

#endif
