/* ios.h -- token-stream model of std::istream / std::ostream / stringstreams
 * as the extracted text uses them (rule E7).
 *
 * Output side: what is written is folded, IN ORDER, into the abstract content
 * `acc` by an uninterpreted function, so that two streams have equal content
 * exactly when the same token list was written (no collisions assumed or
 * excluded).  Text formatting of integers (base 62) is the trusted pair
 * mpz_get_str / mpz_set_str and is not modelled.  The k-th written token is
 * additionally sampled for the arbitrary index ghost_ok (never assigned).
 *
 * Input side: a queue of arbitrary integer tokens (what the peer sent).
 * operator>>(istream&, mpz_ptr) of mpz_helper.cc reads one line and THROWS
 * std::runtime_error (after setting failbit and zeroing the value) when the
 * line is not a number or the stream is exhausted -- modelled by a
 * nondeterministic per-token choice.
 */
#ifndef VERIF_IOS_H
#define VERIF_IOS_H
#include "gmp_abs.h"
#include "stl.h"

long UF(acc_mpz)(long, long);
long UF(acc_lit)(long, unsigned long);
long UF(acc_ulong)(long, unsigned long);
long UF(acc_str)(long, long);
long UF(acc_endl)(long);

size_t ghost_ok;     /* arbitrary output position, never assigned */
size_t ghost_ik;     /* arbitrary input position, never assigned  */
size_t ev_n;         /* global event counter: every integer sent or received gets the next event number */
typedef struct {
  long acc;          /* abstract content written so far                       */
  size_t nput;       /* number of integer tokens written                      */
  long okv;          /* value of integer token number ghost_ok                */
  size_t okev;       /* event number at which integer token number ghost_ok was written */
  size_t ikev;       /* event number at which input token number ghost_ik was read       */
  long *tok;         /* input tokens                                          */
  size_t ntok, pos;
  _Bool fail, eof_after_last;
} ios_t;
#ifndef IOS_MAXTOK
#define IOS_MAXTOK 64
#endif

_Bool nondet_bool(void);
static inline void ios_t__ctor_0(ios_t *s)
{ s->acc = 0; s->nput = 0; s->okv = 0; s->okev = 0; s->ikev = 0; s->tok = 0; s->ntok = 0; s->pos = 0; s->fail = 0; s->eof_after_last = 1; }
static inline void ios_put_mpz(ios_t *s, mpz_srcptr x)
{ s->acc = UF(acc_mpz)(s->acc, x->v); if (s->nput == ghost_ok) { s->okv = x->v; s->okev = ev_n; }
  __CPROVER_assume(ev_n + 1 > ev_n); ev_n = ev_n + 1;
  __CPROVER_assume(s->nput + 1 > s->nput); s->nput = s->nput + 1; }
static inline void ios_put_lit(ios_t *s, const char *txt, unsigned long id) { (void)txt; s->acc = UF(acc_lit)(s->acc, id); }
static inline void ios_put_ulong(ios_t *s, unsigned long x) { s->acc = UF(acc_ulong)(s->acc, x); }
static inline void ios_put_int(ios_t *s, int x) { s->acc = UF(acc_ulong)(s->acc, (unsigned long)(long)x); }
static inline void ios_put_str(ios_t *s, str_t *x) { s->acc = UF(acc_str)(s->acc, x->absid); }
static inline void ios_put_endl(ios_t *s) { s->acc = UF(acc_endl)(s->acc); }
static inline void ios_put_flush(ios_t *s) { (void)s; }
static inline str_t ios_t__str(ios_t *s) { str_t r; r.data = 0; r.size = 0; r.cap = 0; r.absid = s->acc; return r; }
static inline _Bool ios_t__good(ios_t *s) { return !s->fail && !(s->pos >= s->ntok && s->eof_after_last); }
static inline void ios_get_mpz(ios_t *s, mpz_ptr x)
{
  if (s->fail || s->pos >= s->ntok || nondet_bool())
  { x->v = 0; s->fail = 1; __tmcg_thrown = TMCG_EXC_runtime_error; return; }
  __CPROVER_assert(s->pos < IOS_MAXTOK, "model limit: input token queue");
  if (s->pos == ghost_ik) s->ikev = ev_n;
  __CPROVER_assume(ev_n + 1 > ev_n); ev_n = ev_n + 1;
  x->v = s->tok[s->pos]; s->pos = s->pos + 1;
}
/* frame of the stream operations (for assigns clauses) */
#define IOS_IN_ASSIGNS(s) (s)->pos, (s)->fail, (s)->ikev, ev_n
#define IOS_OUT_ASSIGNS(s) (s)->acc, (s)->nput, (s)->okv, (s)->okev, ev_n
/* precondition text for a well-formed (allocated) input stream object */
#define IOS_IN_OK(s) (__CPROVER_is_fresh((s), sizeof(ios_t)) && (s)->ntok <= IOS_MAXTOK && (s)->pos <= (s)->ntok && \
                      __CPROVER_is_fresh((s)->tok, IOS_MAXTOK * sizeof(long)))
#endif
