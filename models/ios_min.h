/* ios_min.h -- output-only stream model for diagnostic output (std::cerr): everything written is dropped */
#ifndef VERIF_IOS_MIN_H
#define VERIF_IOS_MIN_H
typedef struct { int dummy; } ios_t;
ios_t cerr, cout;
static inline void ios_put_lit(ios_t *s, const char *t, unsigned long id) { (void)s; (void)t; (void)id; }
static inline void ios_put_int(ios_t *s, int x) { (void)s; (void)x; }
static inline void ios_put_uint(ios_t *s, unsigned x) { (void)s; (void)x; }
static inline void ios_put_ulong(ios_t *s, unsigned long x) { (void)s; (void)x; }
static inline void ios_put_long(ios_t *s, long x) { (void)s; (void)x; }
static inline void ios_put_uchar(ios_t *s, unsigned char x) { (void)s; (void)x; }
static inline void ios_put_char(ios_t *s, char x) { (void)s; (void)x; }
static inline void ios_put_endl(ios_t *s) { (void)s; }
#endif
