/* map.h -- ghost-key model of std::map<std::string, mpz_ptr> (rule E10).
 *
 * The map is tracked exactly for ONE arbitrary key `ghost_mkey` (never
 * assigned: a fact proved for it holds for every key).  For all other keys
 * the answers are nondeterministic, which over-approximates every concrete
 * map; values stored under other keys are valid, distinct mpz objects (class
 * invariant of the library: only initialised integers are stored).
 * Iteration order is not modelled. */
#ifndef VERIF_MAP_H
#define VERIF_MAP_H
#include "gmp_abs.h"
#include "stl.h"
long ghost_mkey;
typedef struct { _Bool present; mpz_ptr val; size_t size; } map_str_mpz;
_Bool nondet_bool(void);
static inline size_t map_str_mpz__count(map_str_mpz *m, str_t *k)
{ if (k->absid == ghost_mkey) return m->present ? 1 : 0; return nondet_bool() ? 1 : 0; }
static inline mpz_ptr *map_str_mpz__op_index_str(map_str_mpz *m, str_t *k)
{
  if (k->absid == ghost_mkey)
  {
    if (!m->present) { m->present = 1; m->val = 0; __CPROVER_assume(m->size + 1 > m->size); m->size = m->size + 1; }
    return &m->val;
  }
  mpz_ptr *slot = (mpz_ptr *)__verif_new(sizeof(mpz_ptr));
  *slot = (mpz_ptr)__verif_new(sizeof(__mpz_struct));
  return slot;
}
static inline size_t map_str_mpz__erase(map_str_mpz *m, str_t *k)
{
  if (k->absid == ghost_mkey)
  { if (m->present) { m->present = 0; __CPROVER_assume(m->size > 0); m->size = m->size - 1; return 1; } return 0; }
  return nondet_bool() ? 1 : 0;
}
static inline size_t map_str_mpz__size(map_str_mpz *m) { return m->size; }
#endif
