/* parsing shim: libgcrypt's open-coding macros back into named calls (the extractor emits calls, the group's
 * prelude gives them a contract or a monitor) */
#ifndef VERIF_GCRYPT_SHIM
#define VERIF_GCRYPT_SHIM
#include_next <gcrypt.h>
#undef gcry_md_putc
#undef gcry_md_final
void verif_gcry_md_putc(gcry_md_hd_t h, int c);
void verif_gcry_md_final(gcry_md_hd_t h);
#define gcry_md_putc(h, c) verif_gcry_md_putc((h), (c))
#define gcry_md_final(h) verif_gcry_md_final((h))
#endif
