/* Parsing shim used only when clang builds the AST for extraction:
 * the real <gmp.h> with its function-like macros that open-code field
 * accesses replaced by plain calls, so that the extracted text talks to
 * GMP only through named entry points. */
#ifndef VERIF_GMP_SHIM_H
#define VERIF_GMP_SHIM_H
#include_next <gmp.h>
#undef mpz_cmp_ui
#undef mpz_cmp_si
#undef mpz_sgn
#undef mpz_odd_p
#undef mpz_even_p
#undef mpq_sgn
#undef mpq_cmp_ui
#undef mpq_cmp_si
#define mpz_cmp_ui __gmpz_cmp_ui
#define mpz_cmp_si __gmpz_cmp_si
extern "C" {
int __gmpz_sgn(mpz_srcptr);
int __gmpz_odd_p(mpz_srcptr);
int __gmpz_even_p(mpz_srcptr);
}
#define mpz_sgn __gmpz_sgn
#define mpz_odd_p __gmpz_odd_p
#define mpz_even_p __gmpz_even_p
#endif
