/* Parsing shim: keep assert(e) as a named call in the AST. */
#undef assert
#ifdef __cplusplus
extern "C" void __verif_assert(bool);
#else
void __verif_assert(_Bool);
#endif
#define assert(e) __verif_assert(e)
