/* Parsing shim: the configured header of /repo, with the configure-time
 * option TMCG_MAX_CARDS optionally overridden (bounded stack-level groups
 * extract the library in the configuration --with-max-cards=VERIF_MAX_CARDS). */
#include_next <libTMCG_config.h>
#ifdef VERIF_MAX_CARDS
#undef TMCG_MAX_CARDS
#define TMCG_MAX_CARDS VERIF_MAX_CARDS
#endif
#ifdef VERIF_MAX_FPOWM_T
#undef TMCG_MAX_FPOWM_T
#define TMCG_MAX_FPOWM_T VERIF_MAX_FPOWM_T
#endif
#ifdef VERIF_MAX_PLAYERS
#undef TMCG_MAX_PLAYERS
#define TMCG_MAX_PLAYERS VERIF_MAX_PLAYERS
#endif
#ifdef VERIF_MAX_TYPEBITS
#undef TMCG_MAX_TYPEBITS
#define TMCG_MAX_TYPEBITS VERIF_MAX_TYPEBITS
#endif
