/* parse_stub.h -- NONDETERMINISTIC stand-ins for the text-level helpers used by
 * the importers (TMCG_ParseHelper::cm/gs/nx, strtoul, sub-object import).
 * The importers' structural guarantees (sizes, index ranges, bijection) must
 * hold whatever these return, so every result is arbitrary.  The helpers
 * themselves are put under contract in group C11_parse. */
#ifndef VERIF_PARSE_STUB_H
#define VERIF_PARSE_STUB_H
_Bool nondet_bool(void);
unsigned long nondet_ulong(void);
char nondet_char(void);
static char __parse_end_char;
static inline void str_t__ctor_0(str_t *s) { s->data = 0; s->size = 0; s->cap = 0; s->absid = 0; }
static inline str_t str_t__make_1(const char *lit) { str_t r; r.data = 0; r.size = 0; r.cap = 0; r.absid = 0; (void)lit; return r; }
static inline str_t str_t__copy_val(str_t *s) { return *s; }
static inline void str_t__copy(str_t *dst, str_t *src) { *dst = *src; }   /* copy construction: same abstract content */
static inline const char *str_t__c_str(str_t *s) { return s->data ? s->data : &__parse_end_char; }
static inline _Bool TMCG_ParseHelper__cm(str_t *s, str_t *magic, char sep) { (void)s; (void)magic; (void)sep; return nondet_bool(); }
static inline _Bool TMCG_ParseHelper__nx(str_t *s, char sep) { (void)s; (void)sep; return nondet_bool(); }
static inline _Bool TMCG_ParseHelper__gs(str_t *s, char sep, str_t *out) { (void)s; (void)sep; out->absid = (long)nondet_ulong(); return nondet_bool(); }
size_t strtoul_calls; unsigned long strtoul_ret[4];   /* ghost log of the first four numeric fields */
static inline unsigned long strtoul(const char *p, char **end, int base)
{ (void)p; (void)base; __parse_end_char = nondet_char(); *end = &__parse_end_char; unsigned long r = nondet_ulong();
  if (strtoul_calls < 4) strtoul_ret[strtoul_calls] = r; strtoul_calls = strtoul_calls + 1; return r; }
#ifdef PARSE_STUB_MACROS
/* Same stand-ins as expression macros: the writes become direct assignments to the caller's locals.  Needed where
 * the local string lives inside a loop that contains another loop under contract: CBMC 6.11's contract
 * instrumentation does not register such locals in the loop's write set (measured), so a write through a pointer
 * is reported as not assignable although the object is a local of the loop body. */
#define str_t__ctor_0(p) ((void)((p)->data = 0, (p)->size = 0, (p)->cap = 0, (p)->absid = 0))
#define TMCG_ParseHelper__gs(s, sep, out) ((out)->absid = (long)nondet_ulong(), nondet_bool())
#endif
/* frame of the parse stubs (for assigns clauses) */
#define PARSE_ASSIGNS __parse_end_char, strtoul_calls, __CPROVER_object_whole(strtoul_ret)
#endif
