/* gmp_abs.h -- abstract model of the GMP entry points the extracted text calls
 * (trusted base: "assumed contracts on dependencies").
 *
 * An mpz_t holds ONE abstract value (a signed machine word standing for an
 * integer).  Order, equality, +, -, negation and small constants are exact on
 * that word; the no-overflow side condition of + and - is ASSUMED ("machine
 * arithmetic treated as mathematical").  Everything number-theoretic
 * (mul, mod, powm, invert, gcd, jacobi, probab_prime, bit length, bit test)
 * is an UNINTERPRETED function of the argument values, constrained only by
 * facts stated in the GMP manual, instantiated at the call.  A contract
 * proved against this model uses nothing but these facts, so it holds in
 * every structure that satisfies them -- in particular for the integers.
 *
 * Preconditions that GMP leaves undefined are ASSERTED here, so they become
 * obligations on the extracted code:  mpz_mod / mpz_powm / mpz_invert with a
 * zero modulus, mpz_get_str into a too small buffer.
 */
#ifndef VERIF_GMP_ABS_H
#define VERIF_GMP_ABS_H
#include "base.h"

#ifdef GMP_ABS_TRACK_E
/* ghost field e: the multiplicity with which ONE designated factor (chosen by the group, e.g. the table entry at an
 * arbitrary ghost index) occurs in the value, tracked through the multiplicative operations (mul: sum, invert:
 * negation, mod/set: unchanged, constants: 0) in arithmetic modulo 2^64, so that blinding factors cancel exactly;
 * every non-multiplicative operation leaves an arbitrary multiplicity behind.  Contracts of the table-based powers
 * state "the result contains table[k] exactly bit_k(x) times" with it. */
typedef struct { long v; unsigned long e; } __mpz_struct;
unsigned long verif_e_of(const __mpz_struct *b);      /* group-defined: multiplicity of the designated factor in *b */
static inline unsigned long __e_nondet(void) { unsigned long x; return x; }
#define E_SET(r, val) ((r)->e = (val))
#define E_OF(a) verif_e_of(a)
#define E_POISON(r) ((r)->e = __e_nondet())
#else
typedef struct { long v; } __mpz_struct;
#define E_SET(r, val) ((void)0)
#define E_OF(a) 0UL
#define E_POISON(r) ((void)0)
#endif
typedef __mpz_struct mpz_t[1];
typedef __mpz_struct *mpz_ptr;
typedef const __mpz_struct *mpz_srcptr;

#define UF(name) __CPROVER_uninterpreted_##name
long UF(mul)(long, long);
long UF(mod)(long, long);
long UF(powm)(long, long, long);
long UF(invert)(long, long);          /* the inverse, meaningful only when it exists */
_Bool UF(invertible)(long, long);
long UF(gcd)(long, long);
int UF(jacobi)(long, long);
int UF(prime)(long);                  /* primality is a property of the value only */
unsigned long UF(bits)(long);         /* |v| in base 2 */
unsigned long UF(digits)(long, int);  /* sizeinbase for other bases */
_Bool UF(tstbit)(long, unsigned long);
long UF(fdiv_q)(long, long);
long UF(tdiv_q)(long, long);
long UF(sqrt)(long);
long UF(pow_ui)(long, unsigned long);
long UF(tdiv_r_2exp)(long, unsigned long);

static inline long __abs_l(long x) { return x < 0 ? -x : x; }

/* machine arithmetic treated as mathematical (ASSUMPTION, listed in evidence) */
#define NO_OVF_ADD(a, b) __CPROVER_assume(!__CPROVER_overflow_plus((a), (b)))
#define NO_OVF_SUB(a, b) __CPROVER_assume(!__CPROVER_overflow_minus((a), (b)))

static inline void mpz_init(mpz_ptr x) { x->v = 0; E_SET(x, 0UL); }
static inline void mpz_clear(mpz_ptr x) { (void)x; }
static inline void mpz_set(mpz_ptr r, mpz_srcptr a) { unsigned long e_ = E_OF(a); r->v = a->v; E_SET(r, e_); }
static inline void mpz_init_set(mpz_ptr r, mpz_srcptr a) { unsigned long e_ = E_OF(a); r->v = a->v; E_SET(r, e_); }
static inline void mpz_set_ui(mpz_ptr r, unsigned long u) { __CPROVER_assume(u <= (unsigned long)0x7fffffffffffffffL); r->v = (long)u; E_SET(r, 0UL); }
static inline void mpz_init_set_ui(mpz_ptr r, unsigned long u) { mpz_set_ui(r, u); }
static inline void mpz_set_si(mpz_ptr r, long s) { r->v = s; E_SET(r, 0UL); }
static inline void mpz_init_set_si(mpz_ptr r, long s) { r->v = s; E_SET(r, 0UL); }
static inline unsigned long mpz_get_ui(mpz_srcptr a) { return (unsigned long)__abs_l(a->v); }
/* |v| and |-v| have the same bit length (fact of the integers), instantiated at the negation */
static inline void mpz_neg(mpz_ptr r, mpz_srcptr a)
{ NO_OVF_SUB(0L, a->v); __CPROVER_assume(UF(bits)(-a->v) == UF(bits)(a->v)); r->v = -a->v; E_POISON(r); }
static inline void mpz_abs(mpz_ptr r, mpz_srcptr a)
{ NO_OVF_SUB(0L, a->v); __CPROVER_assume(UF(bits)(-a->v) == UF(bits)(a->v)); r->v = __abs_l(a->v); E_POISON(r); }
static inline void mpz_add(mpz_ptr r, mpz_srcptr a, mpz_srcptr b) { NO_OVF_ADD(a->v, b->v); r->v = a->v + b->v; E_POISON(r); }
static inline void mpz_sub(mpz_ptr r, mpz_srcptr a, mpz_srcptr b) { NO_OVF_SUB(a->v, b->v); r->v = a->v - b->v; E_POISON(r); }
static inline void mpz_add_ui(mpz_ptr r, mpz_srcptr a, unsigned long u)
{ __CPROVER_assume(u <= (unsigned long)0x7fffffffffffffffL); NO_OVF_ADD(a->v, (long)u); r->v = a->v + (long)u; E_POISON(r); }
static inline void mpz_sub_ui(mpz_ptr r, mpz_srcptr a, unsigned long u)
{ __CPROVER_assume(u <= (unsigned long)0x7fffffffffffffffL); NO_OVF_SUB(a->v, (long)u); r->v = a->v - (long)u; E_POISON(r); }

static inline int mpz_sgn(mpz_srcptr a) { return a->v < 0 ? -1 : (a->v > 0 ? 1 : 0); }
static inline void __bits_mono(long a, long b)
{ /* bit length is monotone in the magnitude (fact of the integers), instantiated for this pair */
  __CPROVER_assume(a != (-0x7fffffffffffffffL - 1) && b != (-0x7fffffffffffffffL - 1));
  __CPROVER_assume(__abs_l(a) <= __abs_l(b) ==> UF(bits)(a) <= UF(bits)(b));
  __CPROVER_assume(__abs_l(b) <= __abs_l(a) ==> UF(bits)(b) <= UF(bits)(a)); }
static inline int mpz_cmp(mpz_srcptr a, mpz_srcptr b) { __bits_mono(a->v, b->v); return a->v < b->v ? -1 : (a->v > b->v ? 1 : 0); }
static inline int mpz_cmpabs(mpz_srcptr a, mpz_srcptr b)
{ __bits_mono(a->v, b->v); long x = __abs_l(a->v), y = __abs_l(b->v); return x < y ? -1 : (x > y ? 1 : 0); }
static inline int mpz_cmp_ui(mpz_srcptr a, unsigned long u)
{ if (u > (unsigned long)0x7fffffffffffffffL) return -1; return a->v < (long)u ? -1 : (a->v > (long)u ? 1 : 0); }
static inline int mpz_cmp_si(mpz_srcptr a, long s) { return a->v < s ? -1 : (a->v > s ? 1 : 0); }
/* bit 0 of the abstract word is the parity of the integer it stands for (two's complement: also for negative
 * values); instantiated at the call so that loop invariants can speak about parity without an uninterpreted term */
#define __PARITY_FACT(v) __CPROVER_assume(UF(tstbit)((v), 0) == (((v) & 1L) != 0))
static inline int mpz_odd_p(mpz_srcptr a) { __PARITY_FACT(a->v); if (a->v == 0) return 0; /* zero is even */ return UF(tstbit)(a->v, 0) ? 1 : 0; }
static inline int mpz_even_p(mpz_srcptr a) { __PARITY_FACT(a->v); return UF(tstbit)(a->v, 0) ? 0 : 1; }
static inline int mpz_tstbit(mpz_srcptr a, unsigned long i)
{
#ifdef GMP_ABS_EXACT_BITS
  if (a->v >= 0) __CPROVER_assume(UF(tstbit)(a->v, i) == (i < 63 && ((a->v >> (i < 63 ? i : 0)) & 1L) != 0));
#endif
  return UF(tstbit)(a->v, i) ? 1 : 0; }

#ifdef VERIF_SIZE_HOOK
void verif_size_hook(unsigned long r, mpz_srcptr a, int base);
#endif
static inline size_t mpz_sizeinbase(mpz_srcptr a, int base)
{
  unsigned long r = base == 2 ? UF(bits)(a->v) : UF(digits)(a->v, base);
  __CPROVER_assume(r >= 1);
  __CPROVER_assume(a->v == 0 ==> r == 1);            /* manual: the result is 1 if op is zero */
  if (base != 2) __CPROVER_assume(r <= UF(bits)(a->v)); /* base >= 2: no more digits than bits */
#ifdef GMP_ABS_EXACT_BITS
  /* the abstract word stands for the integer equal to it: for non-negative words the bit length is the word's */
  if (base == 2 && a->v > 0) __CPROVER_assume(r == 64UL - (unsigned long)__builtin_clzl((unsigned long)a->v));
#endif
#ifdef VERIF_SIZE_HOOK
  verif_size_hook(r, a, base);   /* ghost monitor defined by the group */
#endif
  return r;
}

static inline void mpz_mul(mpz_ptr r, mpz_srcptr a, mpz_srcptr b) { unsigned long e_ = E_OF(a) + E_OF(b); r->v = UF(mul)(a->v, b->v); E_SET(r, e_); }
static inline void mpz_mul_ui(mpz_ptr r, mpz_srcptr a, unsigned long b) { r->v = UF(mul)(a->v, (long)b); E_POISON(r); }
static inline void mpz_mod(mpz_ptr r, mpz_srcptr a, mpz_srcptr m)
{
  __CPROVER_assert(m->v != 0, "mpz_mod: modulus is not zero (GMP divides by zero otherwise)");
  long x = UF(mod)(a->v, m->v);
  __CPROVER_assume(m->v != (-0x7fffffffffffffffL - 1));
  __CPROVER_assume(0 <= x && x < __abs_l(m->v));        /* manual: result is always non-negative and < |m| */
  __CPROVER_assume((0 <= a->v && a->v < __abs_l(m->v)) ==> x == a->v); /* reduced values are fixed points */
  __bits_mono(x, m->v);                                   /* the residue is not longer than the modulus */
  { unsigned long e_ = E_OF(a); r->v = x; E_SET(r, e_); }  /* reduction does not change the group element */
}
#ifdef VERIF_POWM_HOOK
void verif_powm_hook(long x, mpz_srcptr b, mpz_srcptr e, mpz_srcptr m);
#endif
static inline void mpz_powm(mpz_ptr r, mpz_srcptr b, mpz_srcptr e, mpz_srcptr m)
{
  __CPROVER_assert(m->v != 0, "mpz_powm: modulus is not zero (GMP divides by zero otherwise)");
  long x = UF(powm)(b->v, e->v, m->v);
  __CPROVER_assume(m->v != (-0x7fffffffffffffffL - 1));
  __CPROVER_assume(0 <= x && x < __abs_l(m->v));
#ifdef VERIF_POWM_HOOK
  verif_powm_hook(x, b, e, m);   /* ghost monitor defined by the group (loop invariants cannot mention uninterpreted terms) */
#endif
  r->v = x; E_POISON(r);
}
static inline void mpz_powm_sec(mpz_ptr r, mpz_srcptr b, mpz_srcptr e, mpz_srcptr m)
{
  __CPROVER_assert(e->v > 0, "mpz_powm_sec: exponent is positive (manual)");
  __CPROVER_assert(UF(tstbit)(m->v, 0), "mpz_powm_sec: modulus is odd (manual)");
  mpz_powm(r, b, e, m);
}
static inline int mpz_invert(mpz_ptr r, mpz_srcptr a, mpz_srcptr m)
{
  __CPROVER_assert(m->v != 0, "mpz_invert: modulus is not zero (manual: undefined)");
  if (!UF(invertible)(a->v, m->v)) return 0;       /* manual: r undefined; we leave it unchanged */
  long x = UF(invert)(a->v, m->v);
  __CPROVER_assume(m->v != (-0x7fffffffffffffffL - 1));
  __CPROVER_assume(0 <= x && x < __abs_l(m->v));
  { unsigned long e_ = 0UL - E_OF(a); r->v = x; E_SET(r, e_); }
  return 1;
}
static inline void mpz_gcd(mpz_ptr r, mpz_srcptr a, mpz_srcptr b)
{ long x = UF(gcd)(a->v, b->v); __CPROVER_assume(x >= 0); r->v = x; E_POISON(r); }
static inline int mpz_jacobi(mpz_srcptr a, mpz_srcptr b)
{ int j = UF(jacobi)(a->v, b->v); __CPROVER_assume(j == -1 || j == 0 || j == 1); return j; }
#ifdef VERIF_PRIME_HOOK
void verif_prime_hook(int r, mpz_srcptr a, int reps);   /* ghost monitor defined by the group */
#endif
static inline int mpz_probab_prime_p(mpz_srcptr a, int reps)
{ (void)reps; int r = UF(prime)(a->v);
#ifdef VERIF_PRIME_HOOK
  verif_prime_hook(r, a, reps);
#endif
  __CPROVER_assume(0 <= r && r <= 2);
  __CPROVER_assume(r != 0 ==> (a->v >= 2 || a->v <= -2)); return r; }
_Bool UF(divisible)(long, long);
static inline int mpz_divisible_p(mpz_srcptr n, mpz_srcptr d)
{ /* facts of the integers linking divisibility and gcd, instantiated for this pair */
  _Bool r = UF(divisible)(n->v, d->v);
  __CPROVER_assume(r && (d->v > 1 || d->v < -1) ==> UF(gcd)(n->v, d->v) != 1 && UF(gcd)(d->v, n->v) != 1);
  __CPROVER_assume(!r && UF(prime)(d->v) != 0 ==> UF(gcd)(n->v, d->v) == 1 && UF(gcd)(d->v, n->v) == 1);
  return r ? 1 : 0; }
static inline void mpz_fdiv_q(mpz_ptr r, mpz_srcptr a, mpz_srcptr b)
{ __CPROVER_assert(b->v != 0, "mpz_fdiv_q: divisor is not zero"); r->v = UF(fdiv_q)(a->v, b->v); E_POISON(r); }
static inline void mpz_tdiv_q(mpz_ptr r, mpz_srcptr a, mpz_srcptr b)
{ __CPROVER_assert(b->v != 0, "mpz_tdiv_q: divisor is not zero"); r->v = UF(tdiv_q)(a->v, b->v); E_POISON(r); }
static inline void mpz_tdiv_r_2exp(mpz_ptr r, mpz_srcptr a, unsigned long n) { r->v = UF(tdiv_r_2exp)(a->v, n); E_POISON(r); }
long UF(ui_pow_ui)(unsigned long, unsigned long);
static inline void mpz_ui_pow_ui(mpz_ptr r, unsigned long b, unsigned long e) { long x = UF(ui_pow_ui)(b, e); __CPROVER_assume(x >= 0); r->v = x; E_POISON(r); }
static inline void mpz_pow_ui(mpz_ptr r, mpz_srcptr a, unsigned long e) { r->v = UF(pow_ui)(a->v, e); E_POISON(r); }
static inline void mpz_sqrt(mpz_ptr r, mpz_srcptr a) { r->v = UF(sqrt)(a->v); E_POISON(r); }
long UF(mul_2exp)(long, unsigned long);
_Bool UF(congruent_ui)(long, unsigned long, unsigned long);
/* a * 2^n: the uninterpreted term, with its value fixed for small shifts (fact of the integers instantiated at
 * the call; no-overflow of the abstract word ASSUMED as for + and -) */
static inline void mpz_mul_2exp(mpz_ptr r, mpz_srcptr a, unsigned long n)
{ long x = UF(mul_2exp)(a->v, n);
  if (n <= 8) { __CPROVER_assume(a->v > -(0x7fffffffffffffffL >> 9) && a->v < (0x7fffffffffffffffL >> 9)); __CPROVER_assume(x == a->v * (1L << n)); }
  r->v = x; E_POISON(r); }
/* index of the lowest set bit (manual: ULONG_MAX when there is none, i.e. for zero) and division by a power of two */
unsigned long UF(scan1)(long, unsigned long);
long UF(tdiv_q_2exp)(long, unsigned long);
static inline unsigned long mpz_scan1(mpz_srcptr a, unsigned long start)
{ unsigned long s = UF(scan1)(a->v, start); __CPROVER_assume(a->v == 0 ==> s == ~0UL); return s; }
static inline void mpz_tdiv_q_2exp(mpz_ptr r, mpz_srcptr a, unsigned long n)
{ long x = UF(tdiv_q_2exp)(a->v, n); __CPROVER_assume(n == 0 ==> x == a->v); __CPROVER_assume(a->v >= 0 ==> (0 <= x && x <= a->v)); r->v = x; E_POISON(r); }
/* gcd with a machine word; rop may be NULL (manual) */
unsigned long UF(gcd_ui)(long, unsigned long);
static inline unsigned long mpz_gcd_ui(mpz_ptr r, mpz_srcptr a, unsigned long b)
{ unsigned long x = UF(gcd_ui)(a->v, b); if (r) { __CPROVER_assume(x <= (unsigned long)0x7fffffffffffffffL); r->v = (long)x; E_POISON(r); } return x; }
_Bool UF(congruent)(long, long, long);
/* mpz_congruent_p(n, c, d): n = c (mod d); d = 0 means n == c (GMP manual) */
static inline int mpz_congruent_p(mpz_srcptr n, mpz_srcptr c, mpz_srcptr d) { if (d->v == 0) return n->v == c->v; if (n->v == c->v) return 1; return UF(congruent)(n->v, c->v, d->v) ? 1 : 0; }
static inline int mpz_congruent_ui_p(mpz_srcptr a, unsigned long c, unsigned long d) { return UF(congruent_ui)(a->v, c, d) ? 1 : 0; }
static inline void mpz_swap(mpz_ptr a, mpz_ptr b) { __mpz_struct t = *a; *a = *b; *b = t; }

#if defined(VEC_MPZ_CELLS)
/* std::vector<mpz_ptr> whose slots own their integers (type invariant of the vectors the classes fill with
 * `new mpz_t` in their constructors: slot k points to its own object).  The invariant data[k] == &cells[k] is
 * re-established at every element access instead of being assumed with a quantifier (SAT ignores quantifiers,
 * cvc5 answers unknown); contracts talk about cells[k]. */
typedef struct { mpz_ptr *data; size_t size; size_t cap; __mpz_struct *cells; } vec_mpz;
static inline size_t vec_mpz__size(vec_mpz *v) { return v->size; }
static inline mpz_ptr *vec_mpz__op_index(vec_mpz *v, size_t i)
{ __CPROVER_assert(i < v->size, "vector index in range"); v->data[i] = &v->cells[i]; return &v->data[i]; }
/* local vectors take their slot and cell arrays from a pool provided by the contract's requires (no allocation inside
 * the function, so that they can be used inside loops under contract); a pushed pointer is dropped: slot k owns cells[k] */
#ifndef VEC_MPZ_POOL
#define VEC_MPZ_POOL 6
#endif
extern mpz_ptr *vec_mpz_pool_data[VEC_MPZ_POOL]; extern __mpz_struct *vec_mpz_pool_cells[VEC_MPZ_POOL]; extern size_t vec_mpz_pool_n, vec_mpz_pool_cap;
static inline void vec_mpz__ctor_0(vec_mpz *v)
{ __CPROVER_assert(vec_mpz_pool_n < VEC_MPZ_POOL, "model limit: pool of local integer vectors");
  v->data = vec_mpz_pool_data[vec_mpz_pool_n]; v->cells = vec_mpz_pool_cells[vec_mpz_pool_n]; v->size = 0; v->cap = vec_mpz_pool_cap; vec_mpz_pool_n = vec_mpz_pool_n + 1; }
#ifdef VEC_MPZ_PUSH_COPIES
/* the pushed object's VALUE becomes the value of the slot's own cell (the pointer itself is dropped: faithful as long
 * as the pushed pointer is not used to modify the object afterwards) */
static inline void vec_mpz__push_back(vec_mpz *v, mpz_ptr p) { __CPROVER_assert(v->size < v->cap, "model limit: vector capacity"); v->cells[v->size] = *p; v->size = v->size + 1; }
#else
static inline void vec_mpz__push_back(vec_mpz *v, mpz_ptr p) { (void)p; __CPROVER_assert(v->size < v->cap, "model limit: vector capacity"); v->size = v->size + 1; }
#endif
static inline void vec_mpz__clear(vec_mpz *v) { v->size = 0; }
#elif defined(VEC_DECL)
VEC_DECL(vec_mpz, mpz_ptr)   /* std::vector<mpz_ptr> when stl.h is in use */
#endif
/* spec-level names for the same terms (used in contracts) */
/* side condition "machine arithmetic treated as mathematical" for spec terms that add or negate */
#define MPZ_OK(x) __CPROVER_is_fresh((x), sizeof(__mpz_struct))
#define WORD_OK(x) ((x) > -0x7ffffffffffffff0L && (x) < 0x7ffffffffffffff0L)
#define V(x) ((x)->v)
#define MUL(a, b) UF(mul)((a), (b))
#define MOD(a, m) UF(mod)((a), (m))
#define POWM(b, e, m) UF(powm)((b), (e), (m))

/* ---- hashing: tmcg_mpz_shash(r, n, a1..an) is an uninterpreted function of the ORDERED list ---- */
long UF(hash1)(long);
long UF(hash2)(long, long);
long UF(hash3)(long, long, long);
long UF(hash4)(long, long, long, long);
long UF(hash5)(long, long, long, long, long);
long UF(hash6)(long, long, long, long, long, long);
long UF(hash7)(long, long, long, long, long, long, long);
long UF(hash8)(long, long, long, long, long, long, long, long);
long UF(hash9)(long, long, long, long, long, long, long, long, long);
long UF(hash10)(long, long, long, long, long, long, long, long, long, long);
long UF(hash11)(long, long, long, long, long, long, long, long, long, long, long);
long UF(hash12)(long, long, long, long, long, long, long, long, long, long, long, long);
unsigned long UF(hashlen)(void);
static inline size_t tmcg_mpz_shash_len(void) { unsigned long l = UF(hashlen)(); __CPROVER_assume(l >= 1 && l <= 64); return l; }
/* the hash value is a non-negative integer of at most hashlen*8 bits */
static inline void __hash_out(mpz_ptr r, long h)
{ __CPROVER_assume(h >= 0); __CPROVER_assume(UF(bits)(h) <= UF(hashlen)() * 8); r->v = h; E_POISON(r); }
static inline void tmcg_mpz_shash_1(mpz_ptr r, mpz_srcptr a) { __hash_out(r, UF(hash1)(a->v)); }
static inline void tmcg_mpz_shash_2(mpz_ptr r, mpz_srcptr a, mpz_srcptr b) { __hash_out(r, UF(hash2)(a->v, b->v)); }
static inline void tmcg_mpz_shash_3(mpz_ptr r, mpz_srcptr a, mpz_srcptr b, mpz_srcptr c) { __hash_out(r, UF(hash3)(a->v, b->v, c->v)); }
static inline void tmcg_mpz_shash_4(mpz_ptr r, mpz_srcptr a, mpz_srcptr b, mpz_srcptr c, mpz_srcptr d) { __hash_out(r, UF(hash4)(a->v, b->v, c->v, d->v)); }
static inline void tmcg_mpz_shash_5(mpz_ptr r, mpz_srcptr a, mpz_srcptr b, mpz_srcptr c, mpz_srcptr d, mpz_srcptr e) { __hash_out(r, UF(hash5)(a->v, b->v, c->v, d->v, e->v)); }
static inline void tmcg_mpz_shash_6(mpz_ptr r, mpz_srcptr a, mpz_srcptr b, mpz_srcptr c, mpz_srcptr d, mpz_srcptr e, mpz_srcptr f) { __hash_out(r, UF(hash6)(a->v, b->v, c->v, d->v, e->v, f->v)); }
static inline void tmcg_mpz_shash_7(mpz_ptr r, mpz_srcptr a, mpz_srcptr b, mpz_srcptr c, mpz_srcptr d, mpz_srcptr e, mpz_srcptr f, mpz_srcptr g) { __hash_out(r, UF(hash7)(a->v, b->v, c->v, d->v, e->v, f->v, g->v)); }
static inline void tmcg_mpz_shash_8(mpz_ptr r, mpz_srcptr a, mpz_srcptr b, mpz_srcptr c, mpz_srcptr d, mpz_srcptr e, mpz_srcptr f, mpz_srcptr g, mpz_srcptr h) { __hash_out(r, UF(hash8)(a->v, b->v, c->v, d->v, e->v, f->v, g->v, h->v)); }
static inline void tmcg_mpz_shash_9(mpz_ptr r, mpz_srcptr a, mpz_srcptr b, mpz_srcptr c, mpz_srcptr d, mpz_srcptr e, mpz_srcptr f, mpz_srcptr g, mpz_srcptr h, mpz_srcptr i) { __hash_out(r, UF(hash9)(a->v, b->v, c->v, d->v, e->v, f->v, g->v, h->v, i->v)); }
static inline void tmcg_mpz_shash_10(mpz_ptr r, mpz_srcptr a, mpz_srcptr b, mpz_srcptr c, mpz_srcptr d, mpz_srcptr e, mpz_srcptr f, mpz_srcptr g, mpz_srcptr h, mpz_srcptr i, mpz_srcptr j) { __hash_out(r, UF(hash10)(a->v, b->v, c->v, d->v, e->v, f->v, g->v, h->v, i->v, j->v)); }
static inline void tmcg_mpz_shash_11(mpz_ptr r, mpz_srcptr a, mpz_srcptr b, mpz_srcptr c, mpz_srcptr d, mpz_srcptr e, mpz_srcptr f, mpz_srcptr g, mpz_srcptr h, mpz_srcptr i, mpz_srcptr j, mpz_srcptr k) { __hash_out(r, UF(hash11)(a->v, b->v, c->v, d->v, e->v, f->v, g->v, h->v, i->v, j->v, k->v)); }
static inline void tmcg_mpz_shash_12(mpz_ptr r, mpz_srcptr a, mpz_srcptr b, mpz_srcptr c, mpz_srcptr d, mpz_srcptr e, mpz_srcptr f, mpz_srcptr g, mpz_srcptr h, mpz_srcptr i, mpz_srcptr j, mpz_srcptr k, mpz_srcptr l) { __hash_out(r, UF(hash12)(a->v, b->v, c->v, d->v, e->v, f->v, g->v, h->v, i->v, j->v, k->v, l->v)); }

#endif
