#!/bin/sh
# builds the demo against the library in the worktree (static archive)
set -e
cd "$(dirname "$0")"
g++ -std=c++14 -I/tmp/wt_C01 -I/tmp/wt_C01/src -I/tmp/wt_C01/tests demo.cc /tmp/wt_C01/src/.libs/libTMCG.a -lgmp -lgcrypt -lgpg-error -o demo
