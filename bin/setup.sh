#!/bin/bash
# offline setup: nothing is fetched or built ahead of time; every check re-extracts
# from /repo's working tree.  Only verify that the tools are there.
set -e
cd "$(dirname "$0")/.."
for t in cbmc goto-cc goto-instrument clang++-14 cvc5 z3 g++ python3; do
  command -v $t >/dev/null || { echo "missing tool: $t"; exit 1; }
done
python3 -m py_compile extract/cxx2c.py
python3 -c "import ast,sys; ast.parse(open('bin/vcheck').read())"
mkdir -p build evidence
echo setup ok
