#!/usr/bin/env python3
"""gen_copyloops.py <generated .c> <function cname> [local-vector names...]
Prints `//@ loop k` blocks for the counted copy loops of one extracted function:
   for (size_t i = 0; (i < BOUND); (i++)) { DEST[..] = ...; }
assigns i, the content-free read cell and DEST (a member array of the packet context up to its size, or the
whole heap buffer a pointer member points to); invariant i <= BOUND; decreases BOUND - i.  The output is pasted
into the group's spec.c (sidecar keyed by loop ordinal); loops that do not match are printed as TODO."""
import re, sys
src = open(sys.argv[1]).read()
fn = sys.argv[2]
hdr = open('/repo/src/CallasDonnerhackeFinneyShawThayerRFC4880.hh').read()
m = re.search(r'^[\w ]+\b%s\([^)]*\)\n(?:__CPROVER[^\n]*\n|/\*.*?\*/\n|[^{\n][^\n]*\n)*\{' % re.escape(fn), src, re.M | re.S)
start = m.end()
depth = 1; i = start
while depth:
    c = src[i]
    depth += (c == '{') - (c == '}')
    i += 1
body = src[start:i]
k = 0
for lm in re.finditer(r'(?:for \(size_t (\w+) = [^;]*; \((.*?)\); \(\w+\+\+\)\)|while \((.*)\))\n', body):
    k += 1
    if lm.group(3) is not None:
        print('//@ loop %d\n/* TODO while (%s) */' % (k, lm.group(3)))
        continue
    var, cond = lm.group(1), lm.group(2)
    c2 = re.sub(r'\(\(unsigned long\)(\d+)\)', r'\1', cond)
    c2 = re.sub(r'\(\(size_t\)(\d+)\)', r'\1', c2)
    c2 = re.sub(r'vec_u8__size\(&(\w+)\)', r'\1.size', c2)
    c2 = re.sub(r'vec_u8__size\((\w+)\)', r'\1->size', c2)
    cm = re.match(r'%s < (.*)$' % var, c2)
    bound = cm.group(1).strip() if cm else None
    if bound is None or '&&' in cond:
        print('//@ loop %d\n/* TODO for (%s) */' % (k, cond)); continue
    def balanced(t):
        d = 0
        for ch in t[:-1]:
            d += (ch == '(') - (ch == ')')
            if d == 0: return False
        return True
    while bound.startswith('(') and bound.endswith(')') and balanced(bound):
        bound = bound[1:-1].strip()
    if not re.match(r'^[\w.>-]+$', bound): bound = '(' + bound + ')'
    rest = body[lm.end():lm.end() + 400]
    dm = re.search(r'\b(out|untrusted|in)(->|\.)(\w+)\[', rest.split('}')[0])
    if not dm:
        dm2 = re.search(r'vec_u8__push_back\(&?([\w.>-]+)', rest.split('}')[0])
        if dm2:
            print('//@ loop %d\n__CPROVER_assigns(%s, vec_u8__cell, %s.size)\n__CPROVER_loop_invariant(%s <= %s)\n__CPROVER_decreases(%s - %s)' % (k, var, dm2.group(1).replace('->', '.'), var, bound, bound, var)); continue
        print('//@ loop %d\n/* TODO body: %s */' % (k, rest[:80].replace('\n', ' '))); continue
    obj, sep, name = dm.groups()
    if re.search(r'\*\s*%s\s*;' % name, hdr):
        tgt = '__CPROVER_object_whole(%s%s%s)' % (obj, sep, name)
    else:
        tgt = '__CPROVER_object_upto(%s%s%s, sizeof(%s%s%s))' % (obj, sep, name, obj, sep, name)
    print('//@ loop %d\n__CPROVER_assigns(%s, vec_u8__cell, %s)\n__CPROVER_loop_invariant(%s <= %s)\n__CPROVER_decreases(%s - %s)' % (k, var, tgt, var, bound, bound, var))
