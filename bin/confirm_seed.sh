#!/bin/bash
# confirm_seed.sh <seed-dir> <test names...>
# Independent confirmation of a seeded change in a scratch worktree of /repo (outside /repo and /verif):
#  builds the library unchanged, runs the demo (must exit 0); applies patch.diff, rebuilds, runs the named
#  tests of the existing suite (must pass) and the demo (must exit non-zero).  Writes <seed-dir>/confirm.log
#  and prints one summary line.  The worktree and its build output are removed afterwards.
set -u
SEED=$(readlink -f "$1"); shift
TESTS="$*"
WT=/tmp/confirm_$(basename "$SEED")
LOG="$SEED/confirm.log"
: > "$LOG"
git -C /repo worktree remove --force "$WT" >/dev/null 2>&1
git -C /repo worktree add -q "$WT" HEAD >>"$LOG" 2>&1 || { echo "worktree failed"; exit 2; }
rsync -a --ignore-existing /repo/ "$WT"/ --exclude .git --exclude '*.o' --exclude '*.lo' --exclude '.libs' --exclude '*.la' --exclude '_build' >>"$LOG" 2>&1
cd "$WT" || exit 2
build() { (./configure -q >/dev/null 2>&1; make -j12 -C src >/dev/null 2>&1); ls src/.libs/libTMCG.a >/dev/null 2>&1; }
demo() { # args: tag
  local exe="$WT/demo_$1"
  g++ -std=c++14 -w -DHAVE_CONFIG_H -I"$WT" -I"$WT/src" -I"$WT/tests" -o "$exe" "$SEED/demo.cc" "$WT/src/.libs/libTMCG.a" -lgmp -lgcrypt -lgpg-error >>"$LOG" 2>&1 || return 99
  timeout 1800 "$exe" >>"$LOG" 2>&1; return $?
}
build || { echo "$(basename $SEED): original build FAILED"; exit 2; }
demo orig; D0=$?
git apply "$SEED/patch.diff" >>"$LOG" 2>&1 || { echo "$(basename $SEED): patch does not apply"; exit 2; }
build || { echo "$(basename $SEED): changed build FAILED"; exit 2; }
demo changed; D1=$?
TR="none"
if [ -n "$TESTS" ]; then
  make -C tests check TESTS="$TESTS" >>"$LOG" 2>&1 && TR="pass" || TR="FAIL"
  grep -E "^(PASS|FAIL|# (PASS|FAIL))" "$LOG" | tail -12 >> "$LOG.tests" 2>/dev/null
fi
echo "$(basename $SEED): demo_original_exit=$D0 demo_changed_exit=$D1 tests[$TESTS]=$TR"
echo "SUMMARY demo_original_exit=$D0 demo_changed_exit=$D1 tests[$TESTS]=$TR" >> "$LOG"
cd /; git -C /repo worktree remove --force "$WT" >/dev/null 2>&1; rm -rf "$WT"
