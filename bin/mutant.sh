#!/bin/bash
# mutant.sh <tag> <file under src/> <python-literal old> <python-literal new> <vcheck args...>
# applies one textual change in a scratch worktree of /repo and runs a check against it (VERIF_REPO), in isolation
TAG=$1; FILE=$2; OLD=$3; NEW=$4; shift 4
WT=/tmp/mut_$TAG
git -C /repo worktree remove --force $WT >/dev/null 2>&1
git -C /repo worktree add -q $WT HEAD || exit 2
cp /repo/libTMCG_config.h $WT/ 2>/dev/null
python3 - "$WT/src/$FILE" "$OLD" "$NEW" <<'PY' || { echo "mutant $TAG: pattern missing"; exit 2; }
import sys
p,a,b=sys.argv[1:4]; s=open(p).read()
assert a in s
open(p,'w').write(s.replace(a,b,1))
PY
VERIF_REPO=$WT VERIF_BUILD=/tmp/mutbuild_$TAG VERIF_EVIDENCE=/tmp/mutbuild_$TAG/evidence /verif/bin/vcheck "$@" 2>&1 | grep -v "^WARNING" | grep -v "PROVED" | cut -c1-260 | sed "s/^/[$TAG] /"
git -C /repo worktree remove --force $WT >/dev/null 2>&1; rm -rf /tmp/mutbuild_$TAG
