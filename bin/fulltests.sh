#!/bin/bash
# Runs the repository's own pinned test suite (make -k check) on a scratch
# worktree of /repo's HEAD outside /repo and /verif, prints the PASS/FAIL
# summary and removes the worktree.  Not a registered check: it is the
# evidence that the "fix:" commits keep the unedited test suite passing.
set -u
WT=${1:-/tmp/wt_fulltests}
OUT=${2:-/verif/evidence/testsuite_on_head.txt}
git -C /repo worktree remove --force "$WT" 2>/dev/null; rm -rf "$WT"
git -C /repo worktree add --detach "$WT" HEAD >/dev/null 2>&1 || exit 2
# configure, Makefile.in etc. are generated (untracked) files of /repo: copy them, never the objects
rsync -a --ignore-existing /repo/ "$WT"/ --exclude .git --exclude '*.o' --exclude '*.lo' --exclude '.libs' --exclude '*.la' --exclude '_build' --exclude '*.log' --exclude '*.trs'
HEADREV=$(git -C "$WT" rev-parse HEAD)
cd "$WT" || exit 2
( ./configure -q >conf.log 2>&1 && make -j16 >make.log 2>&1 && make -k -j8 check >check.log 2>&1 ); rc=$?
{ echo "HEAD $HEADREV"; echo "make -k check exit $rc"; grep -E '^(# |PASS|FAIL|XFAIL|SKIP|ERROR)' check.log; } > "$OUT"
cd /; git -C /repo worktree remove --force "$WT"; rm -rf "$WT"; git -C /repo worktree prune
cat "$OUT" | tail -15
exit $rc
