#!/bin/bash
# seedcheck.sh -- development helper: applies every stored seeded change to a scratch copy of /repo/src (never to
# /repo itself), runs the quick check of its property against that copy (VERIF_REPO) and prints one line per seed:
#   CAUGHT (exit 1 with a VIOLATION line) / MISSED (exit 0) / UNDECIDED (exit 2) / NOAPPLY (patch does not apply any more)
cd "$(dirname "$0")/.."
for d in seeded/*/; do
  id=$(basename $d); [ -f $d/patch.diff ] || continue
  prop=$(python3 -c "import json,sys; print(json.load(open('$d/meta.json'))['property'])" 2>/dev/null || echo ${id:0:3})
  W=$(mktemp -d /tmp/seedchk_XXXX)
  rsync -a --exclude .git --exclude '*.o' --exclude '*.lo' --exclude '.libs' --exclude '*.la' --exclude 'tests/t-*' /repo/ $W/ >/dev/null 2>&1
  if ! (cd $W && git init -q . >/dev/null 2>&1; git apply $OLDPWD/$d/patch.diff 2>/dev/null || patch -p1 -s --no-backup-if-mismatch < $OLDPWD/$d/patch.diff >/dev/null 2>&1); then echo "$id property=$prop NOAPPLY"; rm -rf $W; continue; fi
  out=$(VERIF_REPO=$W VERIF_BUILD=/tmp/seedchk_build VERIF_EVIDENCE=/tmp/seedchk_ev VERIF_NO_REPLAY=1 bin/vcheck $prop --tier ${TIER:-quick} 2>/dev/null | grep -E "^(OK|VIOLATION|UNDECIDED)" | head -2 | tr '\n' ' ')
  case "$out" in VIOLATION*) v=CAUGHT;; OK*) v=MISSED;; *) v=UNDECIDED;; esac
  echo "$id property=$prop $v :: $(echo $out | cut -c1-160)"
  rm -rf $W
done
rm -rf /tmp/seedchk_build /tmp/seedchk_ev
