#!/usr/bin/env python3
"""Regenerates MANIFEST.json from contracts/*/group.json and manifest_notes.json."""
import glob, json, os
V = os.path.dirname(os.path.dirname(os.path.abspath(__file__)))
notes = json.load(open(os.path.join(V, 'manifest_notes.json')))
served = {}
for p in sorted(glob.glob(os.path.join(V, 'contracts', '*', 'group.json'))):
    g = json.load(open(p))
    for pr in g.get('properties', []):
        served.setdefault(pr, []).append(os.path.basename(os.path.dirname(p)))
props = [json.loads(l) for l in open(os.path.join(V, 'properties.jsonl'))]
checks = []
na = []
for p in props:
    pid = p['id']
    n = notes.get(pid, {})
    if pid in served and not n.get('not_applicable'):
        checks.append({
            'property_id': pid,
            'quick_cmd': 'bin/vcheck %s --tier quick' % pid,
            'thorough_cmd': 'bin/vcheck %s --tier thorough' % pid,
            'evidence_file': 'evidence/%s.json' % pid,
            'replay_cmd_template': 'bin/vcheck %s --replay {path}' % pid,
            'engine': 'vcheck',
            'level_claimed': {'category': n.get('category', 'proof'), 'text': n['text'], 'design_ref': n.get('design_ref', 'DESIGN.md section 3')},
            'level_note': n['note'],
            'technique': n.get('technique', 'CBMC code contracts (goto-instrument --dfcc) on functions extracted from /repo each run'),
        })
    else:
        na.append({'property_id': pid, 'reason': n.get('not_applicable', 'not built')})
m = {
    'version': 1,
    'setup_cmd': 'bin/setup.sh',
    'hooks': {'guard': 'HEIKOSTAMER_LIBTMCG_VERIF', 'enable': 'no hooks in /repo: contracts and ghost state are spliced into the text extracted from /repo/src on every run',
              'baseline_off_cmd': 'cd /repo && make -k check', 'source_commits': [], 'add_only': True},
    'engines': [{'name': 'vcheck', 'path': 'bin/vcheck', 'serves_properties': sorted(served),
                 'kind_free_text': 'clang-AST driven extraction of the real functions to C + sidecar contracts + CBMC 6.11 contract instrumentation (dfcc); SAT / cvc5 / cvc5 int-blasting / z3 back ends; native replay drivers linking the real sources'}],
    'checks': checks,
    'not_applicable': na,
    'notes': notes.get('_notes', ''),
}
json.dump(m, open(os.path.join(V, 'MANIFEST.json'), 'w'), indent=1)
print('checks:', [c['property_id'] for c in checks]); print('n/a:', [x['property_id'] for x in na])
