#!/bin/bash
# runall.sh [tier]  -- every claimed property once, one summary line each (development helper)
cd "$(dirname "$0")/.."
TIER=${1:-quick}
for p in $(python3 -c "import json; print(' '.join(c['property_id'] for c in json.load(open('MANIFEST.json'))['checks']))"); do
  s=$(date +%s); out=$(bin/vcheck $p --tier $TIER 2>/dev/null | grep -E "^(OK|VIOLATION|UNDECIDED|KNOWN)" | head -3 | tr '\n' ' '); e=$(date +%s)
  echo "$p [$((e-s))s] $out" | cut -c1-300
done
