#!/bin/bash
# mk_seedwt.sh <name> -- scratch worktree of /repo's HEAD for a seeding sub-agent under /tmp/seedwt_<name>,
# with the generated build files of /repo (configure output) copied in and the library built once.
set -u
WT=/tmp/seedwt_$1
git -C /repo worktree remove --force "$WT" >/dev/null 2>&1; rm -rf "$WT"
git -C /repo worktree add -q "$WT" HEAD || exit 2
rsync -a --ignore-existing /repo/ "$WT"/ --exclude .git --exclude '*.o' --exclude '*.lo' --exclude '.libs' --exclude '*.la' --exclude '_build' --exclude 'tests/t-*[!c]' --exclude '*.log' --exclude '*.trs' >/dev/null 2>&1
cd "$WT" && (./configure -q >/dev/null 2>&1; make -j8 -C src >/dev/null 2>&1); ls -la src/.libs/libTMCG.a
