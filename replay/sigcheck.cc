// Native replay for group C20_sig: the REAL TMCG_OpenPGP_Signature of /repo/src.
//  (1) a detached signature packet naming every hash-algorithm octet 0..255 is parsed with the real
//      SignatureParse and handed to the real VerifyData (forked child): a signal violates C12/C20
//      (CheckIntegrity indexes the hash value, which is empty for an unknown algorithm);
//  (2) CheckValidity against an independent evaluation of the property text for the boundary catalogue of
//      creation / expiration / key-creation times and every hash-algorithm octet.
#include "replay_common.hh"
#include <libTMCG.hh>
#include <sys/wait.h>
#include <unistd.h>
typedef CallasDonnerhackeFinneyShawThayerRFC4880 R;
static TMCG_OpenPGP_Signature *mksig(int algo, time_t created, time_t exp)
{
	tmcg_openpgp_octets_t trailer, left, sig, keyid(8, 1);
	R::PacketSigPrepareDetachedSignature(TMCG_OPENPGP_SIGNATURE_BINARY_DOCUMENT, (tmcg_openpgp_hashalgo_t)algo, created, exp, "", keyid, trailer);
	left.push_back(0x12); left.push_back(0x34);
	gcry_mpi_t r = gcry_mpi_set_ui(NULL, 5), s = gcry_mpi_set_ui(NULL, 7);
	R::PacketSigEncode(trailer, left, r, s, sig);
	gcry_mpi_release(r); gcry_mpi_release(s);
	std::string arm; R::ArmorEncode(TMCG_OPENPGP_ARMOR_SIGNATURE, sig, arm);
	TMCG_OpenPGP_Signature *signature = NULL;
	if (!R::SignatureParse(arm, 0, signature)) return NULL;
	return signature;
}
int main(int, char **)
{
	if (!init_libTMCG()) return 2;
	read_trace();
	int bad = 0, runs = 0;
	tmcg_openpgp_octets_t data(3, 'a');
	for (int algo = 0; algo < 256 && bad < 4; algo++)
		for (int verbose = 0; verbose <= 3 && bad < 4; verbose += 3)
		{
			fflush(stdout);
			pid_t pid = fork();
			if (pid == 0)
			{
				alarm(60);
				if (verbose) { if (!freopen("/dev/null", "w", stderr)) _exit(0); }
				TMCG_OpenPGP_Signature *sg = mksig(algo, time(NULL), 360);
				if (sg != NULL) { sg->VerifyData(NULL, data, verbose); delete sg; }
				_exit(0);
			}
			int st = 0; waitpid(pid, &st, 0); runs++;
			if (WIFSIGNALED(st)) { printf("REPLAY-FAIL VerifyData(verbose=%d) killed by signal %d on a signature packet with hash algorithm octet %d\n", verbose, WTERMSIG(st), algo); bad++; }
		}
	time_t now = time(NULL);
	const long dc[] = { -100000, -90001, -89000, -361, -359, -1, 0, 1, 89000, 91000, 100000 };   // creation relative to now
	const long ex[] = { 0, 1, 359, 361, 90000, 100000 };
	const long kc[] = { -1, 0, 1 };                                                            // key creation relative to creation
	for (int algo = 0; algo < 256 && bad < 8; algo++)
		for (size_t a = 0; a < sizeof(dc) / sizeof(dc[0]); a++) for (size_t b = 0; b < sizeof(ex) / sizeof(ex[0]); b++) for (size_t c = 0; c < 3; c++)
		{
			if (algo > 16 && (a + b + c) % 7) continue;
			time_t cr = now + dc[a];
			TMCG_OpenPGP_Signature *sg = mksig(algo, cr, ex[b]);
			if (sg == NULL) continue;
			time_t t0 = time(NULL); bool got = sg->CheckValidity(cr + kc[c], 0); time_t t1 = time(NULL); runs++;
			bool w0 = !(ex[b] && t0 > cr + ex[b]) && !(kc[c] > 0) && !(cr > t0 + 90000) && (algo == 8 || algo == 9 || algo == 10 || algo == 12 || algo == 14);
			bool w1 = !(ex[b] && t1 > cr + ex[b]) && !(kc[c] > 0) && !(cr > t1 + 90000) && (algo == 8 || algo == 9 || algo == 10 || algo == 12 || algo == 14);
			if (got != w0 && got != w1) { printf("REPLAY-FAIL CheckValidity=%d expected %d: hashalgo %d creation now%+ld expiration %ld keycreation creation%+ld\n", (int)got, (int)w0, algo, dc[a], ex[b], kc[c]); bad++; }
			delete sg;
		}
	if (!bad) printf("REPLAY-OK %d runs\n", runs);
	return bad ? 1 : 0;
}
