// Native replay for group C16_verify: the REAL DSS and Schnorr (NTS) verifiers
// on a small Schnorr group, against an independent evaluation of the standard
// verification equations and range conditions, over the range-boundary
// catalogue of the property: (r, s) resp. (c, s) with every component in
// {valid, 0, q, value+q, value-q, q-1, negative}.
#include "replay_common.hh"
#include <libTMCG.hh>
static int bad = 0;
#define FAIL(...) do { printf("REPLAY-FAIL "); printf(__VA_ARGS__); printf("\n"); bad++; } while (0)
static bool is_prime(unsigned long n) { if (n < 2) return false; for (unsigned long d = 2; d * d <= n; d++) if (n % d == 0) return false; return true; }

int main(int argc, char **argv)
{
	if (!init_libTMCG()) return 2;
	read_trace();
	// group: q prime, p = kq + 1 prime, g of order q, h another element of order q
	unsigned long qv = 1048583, kv = 2, pv;
	for (;; qv++) { if (!is_prime(qv)) continue; for (kv = 2; kv < 200; kv += 2) { pv = kv * qv + 1; if (is_prime(pv)) break; } if (kv < 200) break; }
	mpz_t p, q, g, h, k, x, y, m, kk, r, s, c, w, t, u;
	mpz_init_set_ui(p, pv); mpz_init_set_ui(q, qv); mpz_init_set_ui(k, kv); mpz_init(g); mpz_init(h); mpz_init(x); mpz_init(y);
	mpz_init(m); mpz_init(kk); mpz_init(r); mpz_init(s); mpz_init(c); mpz_init(w); mpz_init(t); mpz_init(u);
	mpz_set_ui(t, 2); do { mpz_powm(g, t, k, p); mpz_add_ui(t, t, 1); } while (!mpz_cmp_ui(g, 1));
	do { mpz_powm(h, t, k, p); mpz_add_ui(t, t, 1); } while (!mpz_cmp_ui(h, 1) || !mpz_cmp(h, g));
	mpz_set_ui(x, 777777); mpz_powm(y, g, x, p);

	// ---------------- Schnorr (NTS): c = H(m, g^k), s = k + c x mod q
	GennaroJareckiKrawczykRabinNTS *nts = new GennaroJareckiKrawczykRabinNTS(1, 0, 0, p, q, g, h, 16, 16, false, false);
	mpz_set(nts->y, y);
	for (unsigned long mv = 0; mv < 3 && !bad; mv++)
	{
		mpz_set_ui(m, mv == 2 ? qv - 1 : mv); mpz_set_ui(kk, 123457 + mv);
		mpz_powm(r, g, kk, p); tmcg_mpz_shash(c, 2, m, r);
		mpz_mul(s, c, x); mpz_add(s, s, kk); mpz_mod(s, s, q);
		if (!nts->Verify(m, c, s)) FAIL("Schnorr verifier rejects a signature made by the standard equation");
		struct { const char *n; long mul; long add; } cat[] = { {"s+q", 1, 1}, {"s-q", 1, -1}, {"s+2q", 1, 2} };
		for (int i = 0; i < 3; i++)
		{
			mpz_set(w, s); mpz_addmul_ui(w, q, cat[i].add > 0 ? cat[i].add : 0); if (cat[i].add < 0) mpz_sub(w, w, q);
			bool got = false; try { got = nts->Verify(m, c, w); } catch (std::exception &e) { got = false; }
			if (got) FAIL("Schnorr verifier accepts (c, %s): a response outside 0..q-1 is not refused", cat[i].n);
		}
		mpz_add_ui(w, s, 1); if (nts->Verify(m, c, w)) FAIL("Schnorr verifier accepts s+1");
		mpz_add_ui(w, c, 1); if (nts->Verify(m, w, s)) FAIL("Schnorr verifier accepts c+1");
	}
	// ---------------- DSA (DSS): r = (g^k mod p) mod q, s = k^-1 (m + x r) mod q
	CanettiGennaroJareckiKrawczykRabinDSS *dss = new CanettiGennaroJareckiKrawczykRabinDSS(1, 0, 0, p, q, g, h, 16, 16, false, false);
	mpz_set(dss->y, y);
	for (unsigned long mv = 1; mv < 4 && !bad; mv++)
	{
		mpz_set_ui(m, mv * 99991); mpz_set_ui(kk, 54321 + mv);
		mpz_powm(r, g, kk, p); mpz_mod(r, r, q);
		mpz_invert(w, kk, q); mpz_mul(s, x, r); mpz_add(s, s, m); mpz_mul(s, s, w); mpz_mod(s, s, q);
		if (!mpz_sgn(r) || !mpz_sgn(s)) continue;
		if (!dss->Verify(m, r, s)) FAIL("DSA verifier rejects a signature made by the standard equation");
		mpz_t cand[7];
		for (int a = 0; a < 7; a++) mpz_init(cand[a]);
		for (int which = 0; which < 2; which++)
		{
			mpz_srcptr base = which ? s : r;
			mpz_set_ui(cand[0], 0); mpz_set(cand[1], q); mpz_add(cand[2], base, q); mpz_sub(cand[3], base, q);
			mpz_sub_ui(cand[4], q, 1); mpz_neg(cand[5], base); mpz_add_ui(cand[6], base, 1);
			for (int a = 0; a < 7; a++)
			{
				if (!mpz_cmp(cand[a], base)) continue;
				bool got = which ? dss->Verify(m, r, cand[a]) : dss->Verify(m, cand[a], s);
				// independent evaluation of the standard conditions
				mpz_srcptr rr = which ? r : cand[a], ss = which ? cand[a] : s;
				bool want = mpz_sgn(rr) > 0 && mpz_cmp(rr, q) < 0 && mpz_sgn(ss) > 0 && mpz_cmp(ss, q) < 0 && mpz_invert(w, ss, q);
				if (want)
				{
					mpz_mul(t, m, w); mpz_mod(t, t, q); mpz_powm(t, g, t, p);
					mpz_mul(u, rr, w); mpz_mod(u, u, q); mpz_powm(u, y, u, p);
					mpz_mul(t, t, u); mpz_mod(t, t, p); mpz_mod(t, t, q);
					want = !mpz_cmp(t, rr);
				}
				if (got != want) FAIL("DSA verifier returns %d where the standard equation and ranges give %d (component %d, catalogue entry %d)", got, want, which, a);
			}
		}
	}
	if (!bad) printf("REPLAY-OK\n");
	return bad ? 1 : 0;
}
