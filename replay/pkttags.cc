// Native replay for group C12_tags: the REAL CallasDonnerhackeFinneyShawThayerRFC4880::PacketDecode of /repo/src
// (which dispatches to the PacketDecodeTag* functions under contract) fed with new-format packets of every tag
// whose bodies are short catalogue bodies (version octet x public-key algorithm x every length 0..40, filled with
// small counting octets, 0x00 or 0xFF).  The driver runs itself under valgrind (memcheck): an invalid read/write
// or a fatal signal violates C12; a refusal or any decoded value does not.
#include "replay_common.hh"
#include <libTMCG.hh>
#include <unistd.h>
#include <sys/wait.h>
typedef CallasDonnerhackeFinneyShawThayerRFC4880 R;
static void feed(tmcg_openpgp_byte_t tag, const tmcg_openpgp_octets_t &body)
{
	tmcg_openpgp_octets_t in, cur;
	R::PacketTagEncode(tag, in);
	R::PacketLengthEncode(body.size(), in);
	in.insert(in.end(), body.begin(), body.end());
	tmcg_openpgp_packet_ctx_t ctx;
	tmcg_openpgp_notations_t notations; tmcg_openpgp_multiple_octets_t es, rf;
	std::vector<gcry_mpi_t> qual, xq, v_i; std::vector<std::string> capl; std::vector< std::vector<gcry_mpi_t> > c_ik;
	R::PacketDecode(in, 0, ctx, cur, qual, xq, capl, v_i, c_ik, notations, es, rf);
	R::PacketContextRelease(ctx);
}
static int child(int tag)
{
	if (!init_libTMCG()) return 2;
	const int vers[] = { 1, 3, 4, 5 };
	const int algos[] = { 1, 16, 17, 18, 19, 22, 0 };
	for (size_t v = 0; v < 4; v++) for (size_t a = 0; a < 7; a++) for (size_t len = 0; len <= 40; len++) for (int fill = 0; fill < 3; fill++)
	{
		tmcg_openpgp_octets_t body;
		for (size_t i = 0; i < len; i++) body.push_back(fill == 0 ? (tmcg_openpgp_byte_t)(i & 7) : (fill == 1 ? 0x00 : 0xFF));
		if (len > 0) body[0] = vers[v];
		// the public-key algorithm octet sits at a tag-dependent position
		size_t pos = (tag == 1) ? 9 : ((tag == 2) ? (vers[v] == 3 ? 15 : 2) : ((tag == 4) ? 3 : 5));
		if (len > pos) body[pos] = algos[a];
		feed(tag, body);
	}
	return 0;
}
int main(int argc, char **argv)
{
	if (argc > 2 && !strcmp(argv[1], "--child")) return child(atoi(argv[2]));
	read_trace();
	int bad = 0;
	const int tags[] = { 1, 2, 3, 4, 5, 6, 7, 8, 9, 10, 11, 13, 14, 17, 18, 19, 20 };
	for (size_t i = 0; i < sizeof(tags) / sizeof(tags[0]); i++)
	{
		char num[32]; snprintf(num, sizeof(num), "%d", tags[i]);
		fflush(stdout);
		pid_t pid = fork();
		if (pid == 0)
		{
			execlp("valgrind", "valgrind", "-q", "--error-exitcode=9", "--leak-check=no", argv[0], "--child", num, (char *)NULL);
			_exit(3);
		}
		int st = 0; waitpid(pid, &st, 0);
		if (WIFSIGNALED(st)) { printf("REPLAY-FAIL PacketDecode killed by signal %d on a short body of a tag %d packet\n", WTERMSIG(st), tags[i]); bad++; }
		else if (WEXITSTATUS(st) == 3) { printf("valgrind not available\n"); return 2; }
		else if (WEXITSTATUS(st) != 0) { printf("REPLAY-FAIL PacketDecode: memcheck reports an invalid memory access while decoding a short body of a tag %d packet\n", tags[i]); bad++; }
	}
	if (!bad) printf("REPLAY-OK\n");
	return bad ? 1 : 0;
}
