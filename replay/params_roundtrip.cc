// Native replay for group C11_params: PedersenCommitmentScheme::PublishGroup / stream constructor on the REAL code.
// Property evaluated (same as the contracts): the constructor takes exactly the 4 + n integers of the stream in the
// order p, q, k, h, g_1..g_n; PublishGroup writes exactly these; the re-export is the identical text -- for
// dimensions on both sides of the table limit TMCG_MAX_FPOWM_N.
#include "replay_common.hh"
#include <libTMCG.hh>
int main(int, char **)
{
	if (!init_libTMCG()) return 2;
	read_trace();
	int bad = 0;
	const size_t dims[] = { 1, 2, 3, 52, TMCG_MAX_FPOWM_N - 1, TMCG_MAX_FPOWM_N, TMCG_MAX_FPOWM_N + 1, 300, TMCG_MAX_CARDS };
	for (size_t d = 0; d < sizeof(dims) / sizeof(dims[0]); d++)
	{
		const size_t n = dims[d];
		// a synthetic parameter text: 4 + n pairwise different integers (the constructor does not validate)
		std::stringstream text;
		std::vector<std::string> vals;
		mpz_t v; mpz_init(v);
		for (size_t i = 0; i < 4 + n; i++)
		{
			mpz_set_ui(v, 1000003UL); mpz_pow_ui(v, v, 5 + (i % 7)); mpz_add_ui(v, v, i);
			std::stringstream one; one << v; vals.push_back(one.str());
			text << v << std::endl;
		}
		text << "TRAILER" << std::endl;
		std::stringstream in(text.str());
		PedersenCommitmentScheme *com = new PedersenCommitmentScheme(n, in, 1024, 160);
		if (com->g.size() != n) { printf("REPLAY-FAIL n=%zu: constructor kept %zu generators\n", n, com->g.size()); bad++; }
		std::string rest; std::getline(in, rest);
		if (rest != "TRAILER") { printf("REPLAY-FAIL n=%zu: constructor did not consume exactly 4+n lines (next line '%s')\n", n, rest.substr(0, 20).c_str()); bad++; }
		std::stringstream out; com->PublishGroup(out);
		std::string expect;
		for (size_t i = 0; i < 4 + n; i++) expect += vals[i] + "\n";
		if (out.str() != expect) { printf("REPLAY-FAIL n=%zu: re-exported text differs from the imported text (%zu vs %zu octets)\n", n, out.str().length(), expect.length()); bad++; }
		delete com;
		mpz_clear(v);
	}
	if (!bad) printf("REPLAY-OK\n");
	return bad ? 1 : 0;
}
