// Demonstration for property C03 (completeness: an honest proof is always
// accepted).
//
// An honest prover shuffles a small stack of VTMF cards and produces a
// non-interactive Groth shuffle proof.  The verifier holds a GrothVSSHE
// instance that was created the usual way for a non-leader party: from the
// group description published by the prover (stream constructor), with the
// SAME admissible challenge length l_e that the prover uses.
//
// The run is done twice: with the default l_e (TMCG_GROTH_L_E = 80) and with
// the admissible non-default l_e = 64 (|q| = 256 >= 2*64 + 64).
// Both honest proofs must be accepted.
//
// exit 0 : all honest proofs accepted
// exit 1 : an honest proof was rejected (completeness violated)
// exit 2 : setup problem (should not happen)

#include <iostream>
#include <sstream>
#include <libTMCG.hh>

static bool run
	(SchindelhauerTMCG *tmcg, BarnettSmartVTMF_dlog *vtmf,
	 const size_t n, const unsigned long int l_e)
{
	// leader/prover: create the VSSHE instance and publish it
	GrothVSSHE *vsshe_P = new GrothVSSHE(n, vtmf->p, vtmf->q, vtmf->k,
		vtmf->g, vtmf->h, l_e);
	if (!vsshe_P->CheckGroup())
	{
		std::cerr << "setup: prover VSSHE CheckGroup() failed" << std::endl;
		exit(2);
	}
	std::stringstream grp;
	vsshe_P->PublishGroup(grp);
	// non-leader/verifier: create the VSSHE instance from the published group
	GrothVSSHE *vsshe_V = new GrothVSSHE(n, grp, l_e);
	if (!vsshe_V->CheckGroup())
	{
		std::cerr << "setup: verifier VSSHE CheckGroup() failed" << std::endl;
		exit(2);
	}

	// build an open deck of n cards, shuffle it honestly
	TMCG_Stack<VTMF_Card> s, s2;
	for (size_t type = 0; type < n; type++)
	{
		VTMF_Card c;
		tmcg->TMCG_CreateOpenCard(c, vtmf, type);
		s.push(c);
	}
	TMCG_StackSecret<VTMF_CardSecret> ss;
	tmcg->TMCG_CreateStackSecret(ss, false, s.size(), vtmf);
	tmcg->TMCG_MixStack(s, s2, ss, vtmf);

	// honest non-interactive proof, transcript handed over unchanged
	std::stringstream proof;
	tmcg->TMCG_ProveStackEquality_Groth_noninteractive(s, s2, ss, vtmf,
		vsshe_P, proof);
	bool ok = tmcg->TMCG_VerifyStackEquality_Groth_noninteractive(s, s2, vtmf,
		vsshe_V, proof);
	std::cout << "n = " << n << ", l_e = " << l_e << ": honest Groth shuffle" <<
		" proof (non-interactive) " << (ok ? "ACCEPTED" : "REJECTED") <<
		std::endl;

	delete vsshe_P, delete vsshe_V;
	return ok;
}

int main
	()
{
	if (!init_libTMCG())
	{
		std::cerr << "init_libTMCG() failed" << std::endl;
		return 2;
	}
	SchindelhauerTMCG *tmcg = new SchindelhauerTMCG(16, 1, 4);
	BarnettSmartVTMF_dlog *vtmf = new BarnettSmartVTMF_dlog();
	if (!vtmf->CheckGroup())
	{
		std::cerr << "setup: VTMF CheckGroup() failed" << std::endl;
		return 2;
	}
	vtmf->KeyGenerationProtocol_GenerateKey();
	vtmf->KeyGenerationProtocol_Finalize();
	if (mpz_sizeinbase(vtmf->q, 2L) < (2 * 64 + 64))
	{
		std::cerr << "setup: |q| too small for l_e = 64" << std::endl;
		return 2;
	}

	bool ok_default = run(tmcg, vtmf, 8, TMCG_GROTH_L_E);
	bool ok_custom = run(tmcg, vtmf, 8, 64);

	delete vtmf, delete tmcg;
	if (!ok_default || !ok_custom)
	{
		std::cerr << "FAIL: completeness violated - the verifier rejected an" <<
			" honest, unmodified shuffle proof" <<
			(ok_default ? " (only for the non-default challenge length"
				" l_e = 64)" : "") << std::endl;
		return 1;
	}
	std::cout << "OK: all honest proofs accepted" << std::endl;
	return 0;
}
