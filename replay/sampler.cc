// Native replay for group C07_sampler: the REAL tmcg_mpz_grandom_ui_nomodbias /
// tmcg_mpz_*random_mod from /repo/src/mpz_srandom.cc with libgcrypt's word
// source interposed, so that chosen words can be fed.
//
// Property evaluated (same as the contract): refusal iff modulo < 2; an
// accepted word lies below K*modulo, K = floor(2^64/modulo); no rejected and
// accepted word share a block [j*modulo, (j+1)*modulo); *_mod returns
// word % modulo < modulo.
#include "replay_common.hh"
#include <gmp.h>
#include <gcrypt.h>
#include <stdexcept>
#include <climits>
#include "libTMCG_config.h"
#include "libTMCG.hh"
unsigned long int tmcg_mpz_grandom_ui_nomodbias(enum gcry_random_level level, const unsigned long int modulo);

static std::vector<unsigned long> feed;
static size_t feed_pos = 0;
static unsigned long next_word()
{
	if (feed_pos < feed.size()) return feed[feed_pos++];
	feed_pos++;
	return 0; // always accepted by a correct sampler
}
extern "C" void gcry_randomize(void *buf, size_t n, enum gcry_random_level)
{ unsigned long w = next_word(); memcpy(buf, &w, n < sizeof(w) ? n : sizeof(w)); }
extern "C" void gcry_create_nonce(void *buf, size_t n)
{ unsigned long w = next_word(); memcpy(buf, &w, n < sizeof(w) ? n : sizeof(w)); }

typedef unsigned __int128 u128;
static int bad = 0;
static void report(const char *what, unsigned long m, unsigned long w, unsigned long w2)
{
	printf("REPLAY-FAIL %s modulo=%lu word=%lu other=%lu\n", what, m, w, w2);
	bad = 1;
}

// returns 1 accepted, 0 rejected, -1 threw
static int accepted(unsigned long m, unsigned long w)
{
	feed.clear(); feed.push_back(w); feed_pos = 0;
	try
	{
		unsigned long r = tmcg_mpz_grandom_ui_nomodbias(GCRY_STRONG_RANDOM, m);
		if (feed_pos == 1) { if (r != w) report("returned word differs from the drawn word", m, w, r); return 1; }
		return 0;
	}
	catch (std::invalid_argument &e) { return -1; }
}

static void check_modulus(unsigned long m, const std::vector<unsigned long> &extra)
{
	int a0 = accepted(m, 0);
	if (m < 2) { if (a0 != -1) report("modulo < 2 not refused", m, 0, 0); return; }
	if (a0 == -1) { report("modulo >= 2 refused", m, 0, 0); return; }
	u128 two64 = ((u128)1) << 64;
	unsigned long K = (unsigned long)(two64 / m);      // number of complete blocks
	std::vector<unsigned long> cand(extra);
	unsigned long top = (unsigned long)((u128)K * m);  // first word of the incomplete block (0 if none)
	for (long d = -3; d <= 3; d++)
	{
		cand.push_back(top + d); cand.push_back((unsigned long)d);
		cand.push_back(top - m + d); cand.push_back(m + d); cand.push_back(ULONG_MAX / 2 + d);
	}
	std::vector<std::pair<unsigned long, int> > seen;
	for (size_t i = 0; i < cand.size(); i++)
	{
		int a = accepted(m, cand[i]);
		seen.push_back(std::make_pair(cand[i], a));
		if (a == 1 && (u128)cand[i] >= (u128)K * m)
			report("accepted word lies in the incomplete top block", m, cand[i], 0);
	}
	for (size_t i = 0; i < seen.size(); i++)
		for (size_t j = 0; j < seen.size(); j++)
			if (seen[i].second == 1 && seen[j].second == 0 && seen[i].first / m == seen[j].first / m)
				report("accepted and rejected word share a block", m, seen[i].first, seen[j].first);
	// the reducing wrappers
	for (size_t i = 0; i < cand.size(); i++)
	{
		feed.clear(); feed.push_back(cand[i]); feed_pos = 0;
		unsigned long r = tmcg_mpz_srandom_mod(m);
		if (r >= m) report("srandom_mod out of range", m, cand[i], r);
		if (feed_pos == 1 && r != cand[i] % m) report("srandom_mod is not word % modulo", m, cand[i], r);
		feed.clear(); feed.push_back(cand[i]); feed_pos = 0;
		r = tmcg_mpz_ssrandom_mod(m);
		if (r >= m) report("ssrandom_mod out of range", m, cand[i], r);
		feed.clear(); feed.push_back(cand[i]); feed_pos = 0;
		r = tmcg_mpz_wrandom_mod(m);
		if (r >= m) report("wrandom_mod out of range", m, cand[i], r);
	}
}

int main(int argc, char **argv)
{
	std::vector<std::pair<std::string, std::string> > t = read_trace();
	std::vector<unsigned long> mods = trace_values(t, "modulo");
	std::vector<unsigned long> words = trace_values(t, "ghost_val");
	std::vector<unsigned long> w2 = trace_values(t, "draw_last");
	words.insert(words.end(), w2.begin(), w2.end());
	w2 = trace_values(t, "rnd");
	words.insert(words.end(), w2.begin(), w2.end());
	// the solver's modulus first, then the catalogue named by the property's quantifier
	unsigned long cat[] = { 0, 1, 2, 3, 4, 5, 6, 7, 10, 52, 255, 256, 257, 65535, 65536, 65537,
		(1UL << 31) - 1, 1UL << 31, (1UL << 31) + 1, (1UL << 32) - 1, 1UL << 32, (1UL << 32) + 1,
		(1UL << 61), (1UL << 62) + 1, (1UL << 63) - 1, 1UL << 63, (1UL << 63) + 1, (1UL << 63) + 12345,
		ULONG_MAX / 3, ULONG_MAX / 3 + 1, ULONG_MAX - 1, ULONG_MAX };
	for (size_t i = 0; i < sizeof(cat) / sizeof(cat[0]); i++) mods.push_back(cat[i]);
	for (size_t i = 0; i < mods.size() && !bad; i++)
		check_modulus(mods[i], words);
	if (!bad) printf("REPLAY-OK %zu moduli\n", mods.size());
	return bad;
}
