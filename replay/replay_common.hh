// Common helpers of the native replay drivers.  A driver links the REAL
// translation units of /repo/src, evaluates the same postcondition natively
// and exits 1 when it has an input on which the real code violates it.
#ifndef VERIF_REPLAY_COMMON_HH
#define VERIF_REPLAY_COMMON_HH
#include <cstdio>
#include <cstdlib>
#include <cstring>
#include <iostream>
#include <map>
#include <sstream>
#include <string>
#include <vector>

// the verifier's counterexample arrives on stdin as a JSON list of [name, value] pairs;
// a tiny scanner is enough (names are identifiers, values are C literals)
static std::vector<std::pair<std::string, std::string> > read_trace()
{
	std::vector<std::pair<std::string, std::string> > out;
	std::string all((std::istreambuf_iterator<char>(std::cin)), std::istreambuf_iterator<char>());
	size_t i = 0;
	while ((i = all.find("[\"", i)) != std::string::npos)
	{
		size_t a = i + 2, b = all.find('"', a);
		if (b == std::string::npos) break;
		size_t c = all.find('"', b + 1);
		if (c == std::string::npos) break;
		size_t d = all.find('"', c + 1);
		if (d == std::string::npos) break;
		out.push_back(std::make_pair(all.substr(a, b - a), all.substr(c + 1, d - c - 1)));
		i = d;
	}
	return out;
}

static std::vector<unsigned long> trace_values(const std::vector<std::pair<std::string, std::string> > &t,
	const std::string &name)
{
	std::vector<unsigned long> v;
	for (size_t i = 0; i < t.size(); i++)
		if (t[i].first == name)
			v.push_back(strtoul(t[i].second.c_str(), NULL, 10));
	return v;
}
#endif
