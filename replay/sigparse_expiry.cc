// Demonstration for seed C20b: an OpenPGP detached signature that carries a
// "signature expiration time" subpacket must be rejected by CheckValidity()
// once its lifetime is over (property: "... fail to verify when ... the
// signature is expired ...").
//
// exit 0  -> expired signatures are rejected (expected behaviour)
// exit 1  -> an expired signature was accepted (bug)
// exit 2  -> unexpected setup failure (should not happen)

#include <libTMCG.hh>

#include <iostream>
#include <string>
#include <ctime>

typedef CallasDonnerhackeFinneyShawThayerRFC4880 PGP;

static int fail_setup(const char *what)
{
	std::cerr << "SETUP FAILURE: " << what << std::endl;
	return 2;
}

// Create a V4 detached binary-document signature over "data" with the given
// creation time and lifetime, armor it, and parse it back with
// SignatureParse() exactly as a verifying application would do.
static TMCG_OpenPGP_Signature* make_and_parse
	(const tmcg_openpgp_pkalgo_t pkalgo, const gcry_sexp_t key,
	 const tmcg_openpgp_octets_t &data, const time_t sigtime,
	 const time_t sigexptime)
{
	tmcg_openpgp_octets_t issuer, trailer, hash, left, sigpkt;
	for (size_t i = 0; i < 8; i++)
		issuer.push_back(0x42);
	PGP::PacketSigPrepareDetachedSignature(
		TMCG_OPENPGP_SIGNATURE_BINARY_DOCUMENT, pkalgo,
		TMCG_OPENPGP_HASHALGO_SHA256, sigtime, sigexptime, "", issuer, trailer);
	if (!PGP::BinaryDocumentHash(data, trailer, TMCG_OPENPGP_HASHALGO_SHA256,
		hash, left))
		return NULL;
	gcry_error_t ret;
	if (pkalgo == TMCG_OPENPGP_PKALGO_RSA)
	{
		gcry_mpi_t s = gcry_mpi_new(2048);
		ret = PGP::AsymmetricSignRSA(hash, key, TMCG_OPENPGP_HASHALGO_SHA256, s);
		if (ret)
			return NULL;
		PGP::PacketSigEncode(trailer, left, s, sigpkt);
		gcry_mpi_release(s);
	}
	else
	{
		gcry_mpi_t r = gcry_mpi_new(2048), s = gcry_mpi_new(2048);
		ret = PGP::AsymmetricSignECDSA(hash, key, r, s);
		if (ret)
			return NULL;
		PGP::PacketSigEncode(trailer, left, r, s, sigpkt);
		gcry_mpi_release(r);
		gcry_mpi_release(s);
	}
	std::string armored;
	PGP::ArmorEncode(TMCG_OPENPGP_ARMOR_SIGNATURE, sigpkt, armored);
	TMCG_OpenPGP_Signature *sig = NULL;
	if (!PGP::SignatureParse(armored, 0, sig))
		return NULL;
	return sig;
}

static int run
	(const char *name, const tmcg_openpgp_pkalgo_t pkalgo,
	 const gcry_sexp_t key)
{
	tmcg_openpgp_octets_t data;
	std::string m = "The quick brown fox jumps over the lazy dog.\n";
	for (size_t i = 0; i < m.length(); i++)
		data.push_back(m[i]);
	const time_t now = time(NULL);
	const time_t keycreation = now - 7200; // key is two hours old

	// (a) sanity: fresh signature, lifetime one hour -> valid and verifies
	TMCG_OpenPGP_Signature *fresh =
		make_and_parse(pkalgo, key, data, now - 10, 3600);
	if (fresh == NULL)
		return fail_setup("cannot create/parse fresh signature");
	if (!fresh->CheckValidity(keycreation, 0))
		return fail_setup("fresh signature reported as invalid");
	if (!fresh->VerifyData(key, data, 0))
		return fail_setup("fresh signature does not verify");
	delete fresh;

	// (b) signature made one hour ago with a lifetime of 60 seconds:
	//     cryptographically fine, but expired for 59 minutes
	TMCG_OpenPGP_Signature *old =
		make_and_parse(pkalgo, key, data, now - 3600, 60);
	if (old == NULL)
		return fail_setup("cannot create/parse expired signature");
	if (!old->VerifyData(key, data, 0))
		return fail_setup("expired signature does not verify cryptographically");
	bool accepted = old->CheckValidity(keycreation, 0);
	std::cout << name << ": parsed expirationtime = " << old->expirationtime <<
		" (signed lifetime 60 s, age 3600 s), CheckValidity() = " <<
		(accepted ? "true" : "false") << std::endl;
	delete old;
	if (accepted)
	{
		std::cerr << "BUG: " << name << " signature that expired 59 minutes " <<
			"ago passed SignatureParse() + CheckValidity() + VerifyData()" <<
			std::endl;
		return 1;
	}
	return 0;
}

int main
	()
{
	if (!init_libTMCG())
		return fail_setup("init_libTMCG()");
	size_t erroff = 0;
	gcry_sexp_t ecparms, eckey, rsaparms, rsakey;
	if (gcry_sexp_build(&ecparms, &erroff, "(genkey (ecdsa (curve secp256r1)))"))
		return fail_setup("gcry_sexp_build(ecdsa)");
	if (gcry_pk_genkey(&eckey, ecparms))
		return fail_setup("gcry_pk_genkey(ecdsa)");
	if (gcry_sexp_build(&rsaparms, &erroff, "(genkey (rsa (nbits 4:2048)))"))
		return fail_setup("gcry_sexp_build(rsa)");
	if (gcry_pk_genkey(&rsakey, rsaparms))
		return fail_setup("gcry_pk_genkey(rsa)");

	int rc1 = run("ECDSA", TMCG_OPENPGP_PKALGO_ECDSA, eckey);
	int rc2 = run("RSA", TMCG_OPENPGP_PKALGO_RSA, rsakey);

	gcry_sexp_release(ecparms);
	gcry_sexp_release(eckey);
	gcry_sexp_release(rsaparms);
	gcry_sexp_release(rsakey);
	if (rc1 || rc2)
		return (rc1 > rc2) ? rc1 : rc2;
	std::cout << "OK: expired signatures are rejected" << std::endl;
	return 0;
}
