// Native replay for group C06_vtmf: the REAL BarnettSmartVTMF_dlog::CheckGroup /
// CheckElement against an independent oracle written from the property text,
// exhaustively over small parameter tuples: every (q, k) with q <= 43, k <= 64,
// p in {kq, kq+1, kq+2}, every g in 0..p+1, size bounds at and one above the
// actual bit lengths; canonical generators are checked for acceptance of the
// library's own derivation and refusal of any other generator.
#include "replay_common.hh"
#include <libTMCG.hh>

static int bad = 0;
#define FAIL(...) do { printf("REPLAY-FAIL "); printf(__VA_ARGS__); printf("\n"); bad++; } while (0)
static bool is_prime(unsigned long n)
{ if (n < 2) return false; for (unsigned long d = 2; d * d <= n; d++) if (n % d == 0) return false; return true; }
static unsigned long gcd(unsigned long a, unsigned long b) { while (b) { unsigned long t = a % b; a = b; b = t; } return a; }
static unsigned long powmod(unsigned long b, unsigned long e, unsigned long m)
{ unsigned __int128 r = 1 % m, x = b % m; while (e) { if (e & 1) r = r * x % m; x = x * x % m; e >>= 1; } return (unsigned long)r; }
static unsigned long bits(unsigned long v) { unsigned long n = 0; while (v) { n++; v >>= 1; } return n ? n : 1; }
static std::string num(unsigned long v)
{ mpz_t x; mpz_init_set_ui(x, v); std::ostringstream o; o << x; mpz_clear(x); return o.str(); }

static bool oracle(unsigned long p, unsigned long q, unsigned long k, unsigned long g, unsigned long F, unsigned long G)
{
	return bits(p) >= F && bits(q) >= G && p == q * k + 1 && is_prime(p) && is_prime(q) && gcd(q, k) == 1
		&& g > 1 && g < p - 1 && powmod(g, q, p) == 1;
}

int main(int argc, char **argv)
{
	if (!init_libTMCG()) return 2;
	read_trace();
	unsigned long cases = 0;
	for (unsigned long q = 2; q <= 43 && bad < 5; q++)
		for (unsigned long k = 1; k <= 64 && bad < 5; k++)
			for (unsigned long dp = 0; dp <= 2 && bad < 5; dp++)
			{
				unsigned long p = q * k + dp;
				if (p < 3 || p > 400) continue;
				// restrict the g loop for hopeless tuples (still covers every single-field corruption)
				bool near_valid = is_prime(p) || is_prime(p - 1) || is_prime(p + 1) || dp == 1;
				for (unsigned long g = 0; g <= p + 1 && bad < 5; g += (near_valid ? 1 : 7))
					for (int fs = 0; fs < 2; fs++)
					{
						unsigned long F = bits(p) + fs, G = bits(q) + (fs ? 0 : 0);
						std::stringstream in;
						in << num(p) << std::endl << num(q) << std::endl << num(g) << std::endl << num(k) << std::endl;
						BarnettSmartVTMF_dlog *v = new BarnettSmartVTMF_dlog(in, F, G, false, false);
						bool got = v->CheckGroup(), want = oracle(p, q, k, g, F, G);
						cases++;
						if (got != want) FAIL("CheckGroup(p=%lu q=%lu k=%lu g=%lu F=%lu G=%lu) = %d, property says %d", p, q, k, g, F, G, got, want);
						if (want && fs == 0)
						{
							// subgroup order too short by one bit must be refused
							std::stringstream in2;
							in2 << num(p) << std::endl << num(q) << std::endl << num(g) << std::endl << num(k) << std::endl;
							BarnettSmartVTMF_dlog *v2 = new BarnettSmartVTMF_dlog(in2, F, bits(q) + 1, false, false);
							if (v2->CheckGroup()) FAIL("CheckGroup accepts q shorter than configured (p=%lu q=%lu)", p, q);
							delete v2;
							for (long a = -2; a <= (long)p + 2; a++)
							{
								mpz_t x; mpz_init_set_si(x, a);
								bool w = a > 0 && a < (long)p && powmod(a, q, p) == 1;
								if (v->CheckElement(x) != w) FAIL("CheckElement(%ld) wrong in group p=%lu q=%lu", a, p, q);
								mpz_clear(x);
							}
						}
						delete v;
					}
			}
	// canonical generator: the library's own derivation is accepted, any other generator refused
	{
		BarnettSmartVTMF_dlog *gen = new BarnettSmartVTMF_dlog(64, 16, true, true);
		if (!gen->CheckGroup()) FAIL("CheckGroup refuses a group the library generated itself (canonical generator)");
		std::stringstream pub; gen->PublishGroup(pub);
		BarnettSmartVTMF_dlog *imp = new BarnettSmartVTMF_dlog(pub, 64, 16, true, false);
		if (!imp->CheckGroup()) FAIL("CheckGroup refuses the published canonical group");
		mpz_powm_ui(imp->g, imp->g, 2, imp->p); // another element of order q, not the derived one
		if (imp->CheckGroup()) FAIL("CheckGroup accepts a generator that is not the verifiably derived one");
		delete gen; delete imp;
		BarnettSmartVTMF_dlog *gen2 = new BarnettSmartVTMF_dlog(64, 16, false, true);
		if (!gen2->CheckGroup()) FAIL("CheckGroup refuses a group the library generated itself (random generator)");
		delete gen2;
	}
	if (!bad) printf("REPLAY-OK %lu parameter tuples\n", cases);
	return bad ? 1 : 0;
}
