// Native bounded stand-in / replay for the TMCG_Card (quadratic residuosity) overload of TMCG_VerifyStackEquality:
// the REAL verifier of /repo/src receives structure-aware garbage from the prover side -- stack secrets whose card
// secrets have dimensions different from the game's (k players x w type bits), stack secrets of the wrong size,
// non-permutations, truncated lines -- each run in a forked child.  A signal (assert abort, SIGSEGV, SIGFPE) or an
// exception other than a standard one violates C12; acceptance of such a transcript violates C04.
#include "replay_common.hh"
#include <libTMCG.hh>
#include <sys/wait.h>
#include <unistd.h>
static int bad = 0;
#define FAIL(...) do { if (bad < 10) { printf("REPLAY-FAIL "); printf(__VA_ARGS__); printf("\n"); } bad++; } while (0)
static std::string num(unsigned long v) { mpz_t x; mpz_init_set_ui(x, v); std::ostringstream o; o << x; mpz_clear(x); return o.str(); }

static int run_verifier(SchindelhauerTMCG *tmcg, const TMCG_PublicKeyRing &ring, TMCG_Stack<TMCG_Card> &s, TMCG_Stack<TMCG_Card> &s2,
	bool cyclic, const std::string &transcript)
{
	pid_t pid = fork();
	if (pid == 0)
	{
		alarm(120);
		std::stringstream in(transcript), out;
		int r = 0;
		try { r = tmcg->TMCG_VerifyStackEquality(s, s2, cyclic, ring, in, out) ? 1 : 0; } catch (std::exception &e) { r = 2; }
		_exit(r);
	}
	int st = 0; waitpid(pid, &st, 0);
	if (WIFSIGNALED(st)) return 100 + WTERMSIG(st);
	return WEXITSTATUS(st);
}

// a stack secret line with n entries whose card secrets have dimensions k x w
static std::string secret_line(size_t n, size_t k, size_t w, bool permutation)
{
	std::ostringstream o;
	o << "sts^" << n << "^";
	for (size_t i = 0; i < n; i++)
	{
		o << (permutation ? (i + 1) % n : 0) << "^crs|" << k << "|" << w << "|";
		for (size_t a = 0; a < k; a++) for (size_t b = 0; b < w; b++) o << num(5 + i + a + b) << "|" << num((i + a + b) & 1) << "|";
		o << "^";
	}
	return o.str();
}

int main(int, char **)
{
	if (!init_libTMCG()) return 2;
	read_trace();
	const size_t K = 2, W = 3;
	SchindelhauerTMCG *tmcg = new SchindelhauerTMCG(2, K, W); // 2 rounds, 2 players, 3 type bits
	TMCG_PublicKeyRing ring(K);
	for (size_t i = 0; i < K; i++)
	{
		TMCG_SecretKey sec("P", "p@nowhere.org", 512, false); // small key without validity proof: the verifier only masks with it
		ring.keys[i] = TMCG_PublicKey(sec);
	}
	for (size_t n = 1; n <= 3; n++)
	{
		TMCG_Stack<TMCG_Card> s, s2;
		for (size_t i = 0; i < n; i++) { TMCG_Card c(K, W); tmcg->TMCG_CreateOpenCard(c, ring, i % 8); s.push(c); }
		TMCG_StackSecret<TMCG_CardSecret> ss;
		tmcg->TMCG_CreateStackSecret(ss, false, ring, 0, n);
		tmcg->TMCG_MixStack(s, s2, ss, ring);
		for (size_t k = 1; k <= K + 1; k++)
			for (size_t w = 1; w <= W + 1; w++)
				for (size_t m = 1; m <= n + 1; m++)
					for (int perm = 0; perm < 2; perm++)
					{
						if (k == K && w == W && m == n && perm) continue; // a well-formed answer (rejected by the commitment)
						std::string line = secret_line(m, k, w, perm);
						std::string t = num(4711) + "\n" + line + "\n" + num(4711) + "\n" + line + "\n";
						int r = run_verifier(tmcg, ring, s, s2, false, t);
						if (r >= 100) FAIL("TMCG_VerifyStackEquality(TMCG_Card) killed by signal %d: prover answers with %zu card secrets of dimension %zux%zu (game: %zu cards, %zux%zu)", r - 100, m, k, w, n, K, W);
						else if (r == 1) FAIL("TMCG_VerifyStackEquality(TMCG_Card) ACCEPTS %zu card secrets of dimension %zux%zu for %zu cards of %zux%zu", m, k, w, n, K, W);
					}
		// the claimed shuffle itself (it reaches the verifier from the peer) has cards of other dimensions
		for (size_t k = 1; k <= K + 1; k++)
			for (size_t w = 1; w <= W + 1; w += 3)
			{
				if (k == K && w == W) continue;
				TMCG_Stack<TMCG_Card> odd;
				for (size_t i = 0; i < n; i++) { TMCG_Card c(k, w); odd.push(c); }
				std::string line = secret_line(n, K, W, true);
				std::string t = num(4711) + "\n" + line + "\n" + num(4711) + "\n" + line + "\n";
				for (int which = 0; which < 2; which++)
				{
					int r = which ? run_verifier(tmcg, ring, odd, s2, false, t) : run_verifier(tmcg, ring, s, odd, false, t);
					if (r >= 100) FAIL("TMCG_VerifyStackEquality(TMCG_Card) killed by signal %d: the %s stack has cards of dimension %zux%zu (game: %zux%zu)", r - 100, which ? "first" : "second", k, w, K, W);
					else if (r == 1) FAIL("TMCG_VerifyStackEquality(TMCG_Card) ACCEPTS a stack with cards of dimension %zux%zu", k, w);
				}
			}
		// truncated and empty answers
		const char *junk[] = { "", "sts^", "sts^1^", "sts^1^0^", "sts^1^0^crs|", "sts^1^0^crs|2|3|", "xyz", "sts^99999999999999999999^" };
		for (size_t j = 0; j < sizeof(junk) / sizeof(junk[0]); j++)
		{
			int r = run_verifier(tmcg, ring, s, s2, true, num(1) + "\n" + junk[j] + "\n");
			if (r >= 100) FAIL("TMCG_VerifyStackEquality(TMCG_Card) killed by signal %d on the answer '%s'", r - 100, junk[j]);
			else if (r == 1) FAIL("TMCG_VerifyStackEquality(TMCG_Card) accepts the answer '%s'", junk[j]);
		}
	}
	if (!bad) printf("REPLAY-OK\n"); else printf("%d deviations\n", bad);
	return bad ? 1 : 0;
}
