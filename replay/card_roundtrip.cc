// Demonstration for property C11 (export/import round trip), TMCG_Card:
// a card that is exported must be importable again -- also into an object
// that has already been used for a card of other dimensions (cards reset on
// import) -- and the re-export must be the identical text.
//
// exit 0: property holds for all tried combinations
// exit 1: property violated (message says where)

#include <libTMCG.hh>
#include <iostream>
#include <sstream>
#include <string>

static void fill(TMCG_Card &c, unsigned long seed)
{
	for (size_t i = 0; i < c.z.size(); i++)
		for (size_t j = 0; j < c.z[i].size(); j++)
		{
			// some multi-limb, pairwise different values
			mpz_set_ui(&c.z[i][j], seed + 1000UL * i + j + 1UL);
			mpz_mul_2exp(&c.z[i][j], &c.z[i][j], 70UL + 3UL * j);
			mpz_add_ui(&c.z[i][j], &c.z[i][j], 17UL * i + j);
		}
}

static std::string text(const TMCG_Card &c)
{
	std::ostringstream o;
	o << c;
	return o.str();
}

int main()
{
	if (!init_libTMCG())
	{
		std::cerr << "init_libTMCG() failed" << std::endl;
		return 2;
	}
	const size_t dims[][2] = { {1, 1}, {1, 4}, {2, 4}, {2, 8}, {3, 4},
		{3, 8}, {4, 10}, {5, 3}, {32, 10} };
	const size_t nd = sizeof(dims) / sizeof(dims[0]);
	int bad = 0;

	for (size_t a = 0; a < nd; a++) // dimensions of the exported card
	{
		TMCG_Card orig(dims[a][0], dims[a][1]);
		fill(orig, 42UL + a);
		const std::string s = text(orig);

		// 1. import into a fresh object
		{
			TMCG_Card fresh;
			if (!fresh.import(s) || (fresh != orig) || (text(fresh) != s))
			{
				std::cerr << "FAIL: fresh import of " << dims[a][0] << "x" <<
					dims[a][1] << " card" << std::endl;
				bad++;
			}
		}
		// 2. import into an object previously used for another card
		for (size_t b = 0; b < nd; b++)
		{
			TMCG_Card used(dims[b][0], dims[b][1]);
			fill(used, 4711UL + b);
			const bool ok = used.import(s);
			if (!ok)
			{
				std::cerr << "FAIL: import of exported " << dims[a][0] << "x" <<
					dims[a][1] << " card into used " << dims[b][0] << "x" <<
					dims[b][1] << " card object was rejected" << std::endl;
				bad++;
			}
			else if ((used != orig) || (text(used) != s))
			{
				std::cerr << "FAIL: import of exported " << dims[a][0] << "x" <<
					dims[a][1] << " card into used " << dims[b][0] << "x" <<
					dims[b][1] << " card object gives a different card: " <<
					"re-export has k=" << used.z.size() << " w=" <<
					used.z[0].size() << std::endl;
				bad++;
			}
		}
	}
	if (bad)
	{
		std::cerr << bad << " round-trip violation(s) of property C11" <<
			std::endl;
		return 1;
	}
	std::cout << "OK: all TMCG_Card export/import round trips are identical" <<
		std::endl;
	return 0;
}
