// Native replay for the VTMF proof groups (C03/C04/C05/C06/C08): the REAL
// BarnettSmartVTMF_dlog of /repo/src on a small Schnorr group.
//  * honest proofs are accepted (key share, equality of dlogs with and without
//    the fixed-base tables, OR, masking, re-masking, decryption);
//  * the mutation catalogue of C05 applied to every transmitted value makes
//    verification fail, out-of-range values are refused;
//  * CheckElement accepts exactly the subgroup members in 1..p-1 (all
//    integers -2..p+2);
//  * key update/remove: product of keys, refusal leaves the key unchanged.
// Exit 1 with REPLAY-FAIL lines if the real code deviates.
#include "replay_common.hh"
#include <libTMCG.hh>

static int bad = 0;
#define FAIL(...) do { printf("REPLAY-FAIL "); printf(__VA_ARGS__); printf("\n"); bad = 1; } while (0)

static bool is_prime(unsigned long n)
{ if (n < 2) return false; for (unsigned long d = 2; d * d <= n; d++) if (n % d == 0) return false; return true; }

struct Group { unsigned long p, q, k, g; };
static unsigned long powmod(unsigned long b, unsigned long e, unsigned long m)
{ unsigned __int128 r = 1, x = b % m; while (e) { if (e & 1) r = r * x % m; x = x * x % m; e >>= 1; } return (unsigned long)r; }

static Group make_group(unsigned long qstart)
{
	Group G;
	for (G.q = qstart;; G.q++)
	{
		if (!is_prime(G.q)) continue;
		for (G.k = 2; G.k < 400; G.k += 2)
		{
			G.p = G.k * G.q + 1;
			if (G.k % G.q == 0 || !is_prime(G.p)) continue;
			for (unsigned long b = 2; b < 50; b++)
			{
				G.g = powmod(b, G.k, G.p);
				if (G.g > 1 && G.g < G.p - 1 && powmod(G.g, G.q, G.p) == 1) return G;
			}
		}
	}
}

static std::string num(unsigned long v)
{ mpz_t x; mpz_init_set_ui(x, v); std::ostringstream o; o << x; mpz_clear(x); return o.str(); }

static BarnettSmartVTMF_dlog *make_vtmf(const Group &G)
{
	std::stringstream in;
	in << num(G.p) << std::endl << num(G.q) << std::endl << num(G.g) << std::endl << num(G.k) << std::endl;
	return new BarnettSmartVTMF_dlog(in, 8, 8, false, true);
}

// split a transcript into its integer lines
static std::vector<std::string> lines_of(const std::string &s)
{ std::vector<std::string> v; std::stringstream ss(s); std::string l; while (std::getline(ss, l)) v.push_back(l); return v; }
static std::string join(const std::vector<std::string> &v)
{ std::string s; for (size_t i = 0; i < v.size(); i++) s += v[i] + "\n"; return s; }
static std::string mpzstr(mpz_srcptr x) { std::ostringstream o; o << x; return o.str(); }

template<class F> static void mutate_all(const char *what, const std::string &proof, mpz_srcptr q, F verify)
{
	// every position of the transcript, the C05 catalogue: +1, +q, -q(negative/other representative), 0, 1, truncation
	std::vector<std::string> l = lines_of(proof);
	for (size_t i = 0; i < l.size(); i++)
	{
		mpz_t v, w; mpz_init(v); mpz_init(w);
		mpz_set_str(v, l[i].c_str(), TMCG_MPZ_IO_BASE);
		// (value - q is the negative representative of the SAME residue, which the verifiers accept by
		//  design through mpz_cmpabs; the property only speaks of non-equivalent replacements)
		const char *names[] = { "+1", "+q", "+2q", "0", "1" };
		for (int m = 0; m < 5; m++)
		{
			if (m == 0) mpz_add_ui(w, v, 1); else if (m == 1) mpz_add(w, v, q); else if (m == 2) { mpz_add(w, v, q); mpz_add(w, w, q); }
			else if (m == 3) mpz_set_ui(w, 0); else mpz_set_ui(w, 1);
			if (!mpz_cmp(w, v)) continue;
			std::vector<std::string> l2(l); l2[i] = mpzstr(w);
			std::stringstream in(join(l2));
			bool r = false;
			try { r = verify(in); } catch (std::exception &e) { r = false; }
			if (r) FAIL("%s: transcript with value %zu replaced by value%s is accepted", what, i, names[m]);
		}
		mpz_clear(v); mpz_clear(w);
	}
	for (size_t cut = 0; cut < l.size(); cut++)
	{
		std::vector<std::string> l2(l.begin(), l.begin() + cut);
		std::stringstream in(join(l2));
		bool r = false;
		try { r = verify(in); } catch (std::exception &e) { r = false; }
		if (r) FAIL("%s: transcript truncated to %zu values is accepted", what, cut);
	}
}

int main(int argc, char **argv)
{
	std::string which = argc > 1 ? argv[argc - 1] : "";
	if (!init_libTMCG()) { printf("init_libTMCG failed\n"); return 2; }
	read_trace();
	unsigned long starts[] = { 1009, 65537, 1048583 };
	for (int gi = 0; gi < 3 && !bad; gi++)
	{
		Group G = make_group(starts[gi]);
		BarnettSmartVTMF_dlog *vtmf = make_vtmf(G), *vtmf2 = make_vtmf(G);
		if (!vtmf->CheckGroup()) FAIL("CheckGroup refuses a valid small group p=%lu q=%lu g=%lu k=%lu", G.p, G.q, G.g, G.k);
		// ---- element check: exactly the subgroup members in 1..p-1
		if (gi == 0)
			for (long a = -2; a <= (long)G.p + 2; a++)
			{
				mpz_t x; mpz_init_set_si(x, a);
				bool want = a > 0 && a < (long)G.p && powmod(a, G.q, G.p) == 1;
				if (vtmf->CheckElement(x) != want) FAIL("CheckElement(%ld) = %d in group p=%lu q=%lu", a, !want, G.p, G.q);
				mpz_clear(x);
			}
		// ---- key generation, two players
		vtmf->KeyGenerationProtocol_GenerateKey();
		vtmf2->KeyGenerationProtocol_GenerateKey();
		std::stringstream k1, k2;
		vtmf->KeyGenerationProtocol_PublishKey(k1);
		vtmf2->KeyGenerationProtocol_PublishKey(k2);
		{
			std::vector<std::string> l = lines_of(k2.str());
			mpz_t key, c, r; mpz_init(key); mpz_init(c); mpz_init(r);
			mpz_set_str(key, l[0].c_str(), TMCG_MPZ_IO_BASE); mpz_set_str(c, l[1].c_str(), TMCG_MPZ_IO_BASE); mpz_set_str(r, l[2].c_str(), TMCG_MPZ_IO_BASE);
			if (!vtmf->KeyGenerationProtocol_VerifyNIZK(key, c, r)) FAIL("honest key-share proof rejected");
			mpz_t hold; mpz_init_set(hold, vtmf->h);
			mutate_all("KeyGenerationProtocol_UpdateKey", k2.str(), vtmf->q,
				[&](std::istream &in) { bool ok = vtmf->KeyGenerationProtocol_UpdateKey(in);
					if (!ok && mpz_cmp(hold, vtmf->h)) FAIL("refused key contribution changed the common key");
					if (ok) { std::stringstream again(join(lines_of(k2.str()))); /* undo is not possible for a forged key */ }
					return ok; });
			if (mpz_cmp(hold, vtmf->h)) FAIL("common key changed by refused contributions");
			std::stringstream k2a(k2.str()), k1a(k1.str());
			if (!vtmf->KeyGenerationProtocol_UpdateKey(k2a)) FAIL("honest key contribution refused");
			if (!vtmf2->KeyGenerationProtocol_UpdateKey(k1a)) FAIL("honest key contribution refused (2)");
			if (mpz_cmp(vtmf->h, vtmf2->h)) FAIL("players derive different common keys");
			mpz_t prod; mpz_init(prod); mpz_mul(prod, vtmf->h_i, vtmf2->h_i); mpz_mod(prod, prod, vtmf->p);
			if (mpz_cmp(prod, vtmf->h)) FAIL("common key is not the product of the individual keys");
			std::stringstream k2b(k2.str());
			if (!vtmf->KeyGenerationProtocol_RemoveKey(k2b)) FAIL("removal of a stored key refused");
			if (mpz_cmp(vtmf->h, vtmf->h_i)) FAIL("removal does not restore the previous common key");
			std::stringstream k2c(k2.str());
			if (!vtmf->KeyGenerationProtocol_UpdateKey(k2c)) FAIL("re-adding a key refused");
			mpz_clear(key); mpz_clear(c); mpz_clear(r); mpz_clear(hold); mpz_clear(prod);
		}
		vtmf->KeyGenerationProtocol_Finalize();
		vtmf2->KeyGenerationProtocol_Finalize();
		// ---- equality of discrete logs, both exponentiation paths
		mpz_t alpha, x, y, m, c1, c2, r, d1, d2, rr;
		mpz_init(alpha); mpz_init(x); mpz_init(y); mpz_init(m); mpz_init(c1); mpz_init(c2); mpz_init(r); mpz_init(d1); mpz_init(d2); mpz_init(rr);
		for (int rep = 0; rep < 3; rep++)
		{
			mpz_set_ui(alpha, 12345 + 7919 * rep); mpz_mod(alpha, alpha, vtmf->q);
			mpz_powm(x, vtmf->g, alpha, vtmf->p); mpz_powm(y, vtmf->h, alpha, vtmf->p);
			for (int fp = 0; fp < 2; fp++)
			{
				std::stringstream proof;
				vtmf->CP_Prove(x, y, vtmf->g, vtmf->h, alpha, proof, fp == 1);
				std::stringstream in(proof.str());
				bool ok = false;
				try { ok = vtmf2->CP_Verify(x, y, vtmf2->g, vtmf2->h, in, fp == 1); }
				catch (std::exception &e) { FAIL("CP_Verify threw %s on an honest proof (fpowm_usage=%d)", e.what(), fp); }
				if (!ok) FAIL("honest equality-of-dlog proof rejected (fpowm_usage=%d) group p=%lu q=%lu", fp, G.p, G.q);
				if (ok && rep == 0)
					mutate_all(fp ? "CP_Verify(fpowm)" : "CP_Verify", proof.str(), vtmf->q,
						[&](std::istream &i2) { return vtmf2->CP_Verify(x, y, vtmf2->g, vtmf2->h, i2, fp == 1); });
			}
			// ---- masking / re-masking
			vtmf->IndexElement(m, 5 + rep);
			vtmf->VerifiableMaskingProtocol_Mask(m, c1, c2, r);
			std::stringstream pm;
			vtmf->VerifiableMaskingProtocol_Prove(m, c1, c2, r, pm);
			std::stringstream pmi(pm.str());
			bool okm = false;
			try { okm = vtmf2->VerifiableMaskingProtocol_Verify(m, c1, c2, pmi); }
			catch (std::exception &e) { FAIL("VerifiableMaskingProtocol_Verify threw %s on an honest proof", e.what()); }
			if (!okm) FAIL("honest masking proof rejected");
			vtmf->VerifiableRemaskingProtocol_Mask(c1, c2, d1, d2, rr);
			std::stringstream pr;
			vtmf->VerifiableRemaskingProtocol_Prove(c1, c2, d1, d2, rr, pr);
			std::stringstream pri(pr.str());
			bool okr = false;
			try { okr = vtmf2->VerifiableRemaskingProtocol_Verify(c1, c2, d1, d2, pri); }
			catch (std::exception &e) { FAIL("VerifiableRemaskingProtocol_Verify threw %s on an honest proof", e.what()); }
			if (!okr) FAIL("honest re-masking proof rejected");
			if (okr && rep == 0)
				mutate_all("VerifiableRemaskingProtocol_Verify", pr.str(), vtmf->q,
					[&](std::istream &i2) { return vtmf2->VerifiableRemaskingProtocol_Verify(c1, c2, d1, d2, i2); });
			// ---- decryption with both shares returns the masked element
			std::stringstream pd;
			vtmf2->VerifiableDecryptionProtocol_Prove(d1, pd);
			vtmf->VerifiableDecryptionProtocol_Verify_Initialize(d1);
			std::stringstream pdi(pd.str());
			if (!vtmf->VerifiableDecryptionProtocol_Verify_Update(d1, pdi)) FAIL("honest decryption share rejected");
			mpz_t mm; mpz_init(mm);
			vtmf->VerifiableDecryptionProtocol_Verify_Finalize(d2, mm);
			if (mpz_cmp(mm, m)) FAIL("decryption of a (re)masked element does not return it");
			mpz_clear(mm);
			// ---- OR proof
			std::stringstream po;
			vtmf->OR_ProveFirst(x, y, vtmf->g, vtmf->h, alpha, po);
			std::stringstream poi(po.str());
			if (!vtmf2->OR_Verify(x, y, vtmf2->g, vtmf2->h, poi)) FAIL("honest OR proof (first) rejected");
			std::stringstream po2;
			vtmf->OR_ProveSecond(m, y, vtmf->g, vtmf->h, alpha, po2);
			std::stringstream po2i(po2.str());
			if (!vtmf2->OR_Verify(m, y, vtmf2->g, vtmf2->h, po2i)) FAIL("honest OR proof (second) rejected");
		}
		mpz_clear(alpha); mpz_clear(x); mpz_clear(y); mpz_clear(m); mpz_clear(c1); mpz_clear(c2); mpz_clear(r); mpz_clear(d1); mpz_clear(d2); mpz_clear(rr);
		delete vtmf; delete vtmf2;
	}
	if (!bad) printf("REPLAY-OK %s\n", which.c_str());
	return bad;
}
