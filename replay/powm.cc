// Native replay for group C09_exact: the REAL exponentiation variants and modular square roots of
// /repo/src against plain GMP, exhaustively over small operands: every odd modulus 3..63, every base
// coprime to it, every exponent -130..130 (covers multiples of the modulus, the table limit and one
// beyond is not reachable with the shipped TMCG_MAX_FPOWM_T); every odd prime p < 600 and every
// quadratic residue for the square roots, every Blum product of two primes < 60; the table-based variants
// additionally on machine-word exponents at every bit boundary up to 2^63.
#include "replay_common.hh"
#include <libTMCG.hh>
static int bad = 0;
#define FAIL(...) do { if (bad < 12) { printf("REPLAY-FAIL "); printf(__VA_ARGS__); printf("\n"); } bad++; } while (0)
static bool is_prime(unsigned long n) { if (n < 2) return false; for (unsigned long d = 2; d * d <= n; d++) if (n % d == 0) return false; return true; }
int main(int, char **)
{
	if (!init_libTMCG()) return 2;
	read_trace();
	mpz_t m, x, p, res, ref, a, r, sq, g;
	mpz_init(m); mpz_init(x); mpz_init(p); mpz_init(res); mpz_init(ref); mpz_init(a); mpz_init(r); mpz_init(sq); mpz_init(g);
	mpz_t *tab = new mpz_t[TMCG_MAX_FPOWM_T]();
	tmcg_mpz_fpowm_init(tab);
	for (unsigned long pv = 3; pv < 64; pv += 2)
		for (unsigned long mv = 1; mv < pv; mv++)
		{
			mpz_set_ui(p, pv); mpz_set_ui(m, mv); mpz_gcd(g, m, p);
			if (mpz_cmp_ui(g, 1)) continue;
			tmcg_mpz_fpowm_precompute(tab, m, p, 16);
			for (long xv = -130; xv <= 130; xv++)
			{
				mpz_set_si(x, xv); mpz_powm(ref, m, x, p);
				const char *names[] = { "tmcg_mpz_spowm", "tmcg_mpz_spowm_baseblind", "tmcg_mpz_fpowm", "tmcg_mpz_fspowm" };
				for (int f = 0; f < 4; f++)
				{
					if (f == 1 && xv < 0) continue; // documented for non-negative exponents only
					try
					{
						mpz_set_ui(res, 0);
						if (f == 0) tmcg_mpz_spowm(res, m, x, p); else if (f == 1) tmcg_mpz_spowm_baseblind(res, m, x, p);
						else if (f == 2) tmcg_mpz_fpowm(tab, res, m, x, p); else tmcg_mpz_fspowm(tab, res, m, x, p);
						if (mpz_cmp(res, ref)) FAIL("%s(%lu, %ld, %lu) differs from the plain modular power", names[f], mv, xv, pv);
					}
					catch (std::exception &e) { FAIL("%s(%lu, %ld, %lu) throws '%s' for a base coprime to the modulus", names[f], mv, xv, pv, e.what()); }
				}
			}
		}
	// machine-word exponents of the table-based variants: every bit boundary 2^k-1, 2^k, 2^k+1 (k < 64) and small values
	for (unsigned long pv = 3; pv < 40; pv += 2)
		for (unsigned long mv = 2; mv < pv; mv += 3)
		{
			mpz_set_ui(p, pv); mpz_set_ui(m, mv); mpz_gcd(g, m, p);
			if (mpz_cmp_ui(g, 1)) continue;
			tmcg_mpz_fpowm_precompute(tab, m, p, 70);
			std::vector<unsigned long> es;
			for (unsigned long e = 0; e < 40; e++) es.push_back(e);
			for (unsigned k = 5; k < 64; k++) { es.push_back((1UL << k) - 1); es.push_back(1UL << k); es.push_back((1UL << k) + 1); es.push_back((1UL << k) + (1UL << (k / 2)) + 5); }
			es.push_back(~0UL >> 1);
			for (size_t j = 0; j < es.size(); j++)
			{
				mpz_powm_ui(ref, m, es[j], p);
				try { mpz_set_ui(res, 0); tmcg_mpz_fpowm_ui(tab, res, m, es[j], p);
					if (mpz_cmp(res, ref)) FAIL("tmcg_mpz_fpowm_ui(%lu, %lu, %lu) differs from the plain modular power", mv, es[j], pv); }
				catch (std::exception &e) { FAIL("tmcg_mpz_fpowm_ui(%lu, %lu, %lu) throws '%s'", mv, es[j], pv, e.what()); }
				mpz_set_ui(x, es[j]);
				try { mpz_set_ui(res, 0); tmcg_mpz_fpowm(tab, res, m, x, p);
					if (mpz_cmp(res, ref)) FAIL("tmcg_mpz_fpowm(%lu, %lu, %lu) differs from the plain modular power", mv, es[j], pv);
					mpz_set_ui(res, 0); tmcg_mpz_fspowm(tab, res, m, x, p);
					if (mpz_cmp(res, ref)) FAIL("tmcg_mpz_fspowm(%lu, %lu, %lu) differs from the plain modular power", mv, es[j], pv); }
				catch (std::exception &e) { FAIL("tmcg_mpz_f(s)powm(%lu, %lu, %lu) throws '%s'", mv, es[j], pv, e.what()); }
			}
		}
	for (unsigned long pv = 3; pv < 600 && bad < 12; pv += 2)
	{
		if (!is_prime(pv)) continue;
		mpz_set_ui(p, pv);
		for (unsigned long av = 1; av < pv; av++)
		{
			mpz_set_ui(a, av);
			if (mpz_jacobi(a, p) != 1) continue;
			tmcg_mpz_sqrtmp_r(r, a, p); mpz_mul(sq, r, r); mpz_mod(sq, sq, p);
			if (mpz_cmp(sq, a)) FAIL("tmcg_mpz_sqrtmp_r(%lu, %lu)^2 != a (p mod 8 = %lu)", av, pv, pv % 8);
			tmcg_mpz_sqrtmp(r, a, p); mpz_mul(sq, r, r); mpz_mod(sq, sq, p);
			if (mpz_cmp(sq, a)) FAIL("tmcg_mpz_sqrtmp(%lu, %lu)^2 != a (p mod 8 = %lu)", av, pv, pv % 8);
		}
	}
	if (!bad) printf("REPLAY-OK\n"); else printf("%d deviations\n", bad);
	return bad ? 1 : 0;
}
