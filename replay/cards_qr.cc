// Demonstration for property C01 (TMCG_Card / quadratic-residue encoding):
// "a card created with type T and then masked any number of times by any of
//  the k players opens to exactly T once all k players have contributed their
//  (verified) opening information."
//
// The program plays the protocol with k players.  A card of every type
// 0..2^w-1 is created privately (TMCG_CreatePrivateCard) by some player, is
// then re-masked by every player in turn with fresh type-preserving secrets
// (TMCG_CreateCardSecret + TMCG_MaskCard), and is finally opened by player 0:
// own contribution via TMCG_SelfCardSecret, every other player's contribution
// via the interactive TMCG_ProveCardSecret / TMCG_VerifyCardSecret proof
// (prover runs in a forked child, connected by pipes).
//
// exit 0  : all cards opened to the type they were created with
// exit 1  : some card opened to a different type (property C01 violated)
// exit 2  : infrastructure problem (proof rejected, fork failed, ...)

#include <libTMCG.hh>

#include <iostream>
#include <sstream>
#include <vector>
#include <cstdlib>
#include <unistd.h>
#include <sys/wait.h>

#include "pipestream.hh"

static const unsigned long KEYBITS = 1024; // small keys: this is a demo
static const unsigned long SECURITY = 8;   // soundness 2^-8 is plenty here

struct Party
{
	TMCG_SecretKey *sec;
	TMCG_PublicKey *pub;
};

// Player 0 learns the type of card c. Players 1..k-1 prove their row.
static bool open_card
	(SchindelhauerTMCG *tmcg, const TMCG_Card &c, std::vector<Party> &P,
	 const size_t k, const size_t w, size_t &type)
{
	TMCG_CardSecret open(k, w);
	tmcg->TMCG_SelfCardSecret(c, open, *P[0].sec, 0);
	for (size_t j = 1; j < k; j++)
	{
		int p2c[2], c2p[2];
		if ((pipe(p2c) < 0) || (pipe(c2p) < 0))
			return false;
		pid_t pid = fork();
		if (pid < 0)
			return false;
		if (pid == 0)
		{
			// child: player j proves the quadratic residuosity of its row
			close(p2c[1]), close(c2p[0]);
			ipipestream in(p2c[0]);
			opipestream out(c2p[1]);
			tmcg->TMCG_ProveCardSecret(c, *P[j].sec, j, in, out);
			out.flush();
			_exit(0);
		}
		close(p2c[0]), close(c2p[1]);
		bool ok;
		{
			ipipestream in(c2p[0]);
			opipestream out(p2c[1]);
			ok = tmcg->TMCG_VerifyCardSecret(c, open, *P[j].pub, j, in, out);
		}
		close(p2c[1]), close(c2p[0]);
		int st = 0;
		waitpid(pid, &st, 0);
		if (!ok)
			return false;
	}
	type = tmcg->TMCG_TypeOfCard(open);
	return true;
}

// returns 0 = fine, 1 = property violated, 2 = infrastructure problem
static int run
	(const size_t k, const size_t w, std::vector<Party> &P)
{
	TMCG_PublicKeyRing ring(k);
	for (size_t i = 0; i < k; i++)
		ring.keys[i] = *P[i].pub;
	SchindelhauerTMCG *tmcg = new SchindelhauerTMCG(SECURITY, k, w);
	int result = 0;
	const size_t ntypes = ((size_t)1 << w);
	for (size_t T = 0; T < ntypes; T++)
	{
		const size_t creator = T % k;
		TMCG_Card c(k, w);
		TMCG_CardSecret cs(k, w);
		tmcg->TMCG_CreatePrivateCard(c, cs, ring, creator, T);
		// every player re-masks the card once, starting after the creator
		for (size_t s = 1; s <= k; s++)
		{
			const size_t masker = (creator + s) % k;
			TMCG_Card cc(k, w);
			TMCG_CardSecret ms(k, w);
			tmcg->TMCG_CreateCardSecret(ms, ring, masker);
			tmcg->TMCG_MaskCard(c, cc, ms, ring);
			c = cc;
		}
		size_t got = ntypes;
		if (!open_card(tmcg, c, P, k, w, got))
		{
			std::cerr << "k=" << k << ": opening proof rejected for card of" <<
				" type " << T << std::endl;
			delete tmcg;
			return 2;
		}
		std::cout << "k=" << k << " w=" << w << " created by player " <<
			creator << " with type " << T << ", masked by all " << k <<
			" players, opened as " << got <<
			((got == T) ? "" : "   <-- MISMATCH") << std::endl;
		if (got != T)
			result = 1;
	}
	delete tmcg;
	return result;
}

int main
	()
{
	if (!init_libTMCG())
	{
		std::cerr << "init_libTMCG() failed" << std::endl;
		return 2;
	}
	const size_t KMAX = 4, w = 3;
	std::vector<Party> P;
	for (size_t i = 0; i < KMAX; i++)
	{
		std::stringstream name;
		name << "player" << i;
		Party p;
		p.sec = new TMCG_SecretKey(name.str(), "demo@nowhere.org", KEYBITS,
			false);
		p.pub = new TMCG_PublicKey(*p.sec);
		P.push_back(p);
	}
	int worst = 0;
	for (size_t k = 1; k <= KMAX; k++)
	{
		int r = run(k, w, P);
		if (r > worst)
			worst = r;
	}
	if (worst == 0)
		std::cout << "OK: every card opened to the type it was created with" <<
			std::endl;
	else if (worst == 1)
		std::cerr << "FAIL (C01): a TMCG_Card created with type T and masked" <<
			" with type-preserving secrets did not open to T" << std::endl;
	else
		std::cerr << "ERROR: infrastructure problem" << std::endl;
	return worst;
}
