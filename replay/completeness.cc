// Native bounded stand-in for C03 (completeness): honest prover and honest verifier of the REAL code of /repo/src,
// connected by pipes (the transcript reaches the verifier unchanged), for every stack size 2..9 -- powers of two and
// others -- every rotation, and a sample of permutations: cut-and-choose (with and without rotation), Groth's shuffle
// argument (interactive and non-interactive), the rotation argument of de Hoogh et al. (interactive and
// non-interactive), on a small Schnorr group.  A rejected honest proof violates C03.
#include "replay_common.hh"
#include <libTMCG.hh>
#include <unistd.h>
#include <sys/wait.h>
#include <ext/stdio_filebuf.h>
#include <algorithm>
static int bad = 0, total = 0;
#define FAIL(...) do { if (bad < 12) { printf("REPLAY-FAIL "); printf(__VA_ARGS__); printf("\n"); } bad++; } while (0)

struct Ctx { SchindelhauerTMCG *tmcg; BarnettSmartVTMF_dlog *vtmf; GrothVSSHE *vsshe; HooghSchoenmakersSkoricVillegasVRHE *vrhe;
	TMCG_Stack<VTMF_Card> s, s2; TMCG_StackSecret<VTMF_CardSecret> ss; bool cyclic; };
enum Kind { CUTNCHOOSE, GROTH, GROTH_NI, HOOGH, HOOGH_NI };
static const char *kname[] = { "cut-and-choose", "Groth interactive", "Groth non-interactive", "Hoogh interactive", "Hoogh non-interactive" };

static bool run(Ctx &c, Kind k)
{
	int v2p[2], p2v[2];
	if (pipe(v2p) < 0 || pipe(p2v) < 0) exit(2);
	pid_t pid = fork();
	if (pid == 0)
	{
		alarm(300);
		close(v2p[1]); close(p2v[0]);
		__gnu_cxx::stdio_filebuf<char> ib(v2p[0], std::ios::in), ob(p2v[1], std::ios::out);
		std::istream in(&ib); std::ostream out(&ob);
		switch (k)
		{
			case CUTNCHOOSE: c.tmcg->TMCG_ProveStackEquality(c.s, c.s2, c.ss, c.cyclic, c.vtmf, in, out); break;
			case GROTH: c.tmcg->TMCG_ProveStackEquality_Groth(c.s, c.s2, c.ss, c.vtmf, c.vsshe, in, out); break;
			case GROTH_NI: c.tmcg->TMCG_ProveStackEquality_Groth_noninteractive(c.s, c.s2, c.ss, c.vtmf, c.vsshe, out); break;
			case HOOGH: c.tmcg->TMCG_ProveStackEquality_Hoogh(c.s, c.s2, c.ss, c.vtmf, c.vrhe, in, out); break;
			case HOOGH_NI: c.tmcg->TMCG_ProveStackEquality_Hoogh_noninteractive(c.s, c.s2, c.ss, c.vtmf, c.vrhe, out); break;
		}
		out.flush();
		_exit(0);
	}
	close(v2p[0]); close(p2v[1]);
	bool ok = false;
	{
		__gnu_cxx::stdio_filebuf<char> ib(p2v[0], std::ios::in), ob(v2p[1], std::ios::out);
		std::istream in(&ib); std::ostream out(&ob);
		try
		{
			switch (k)
			{
				case CUTNCHOOSE: ok = c.tmcg->TMCG_VerifyStackEquality(c.s, c.s2, c.cyclic, c.vtmf, in, out); break;
				case GROTH: ok = c.tmcg->TMCG_VerifyStackEquality_Groth(c.s, c.s2, c.vtmf, c.vsshe, in, out); break;
				case GROTH_NI: ok = c.tmcg->TMCG_VerifyStackEquality_Groth_noninteractive(c.s, c.s2, c.vtmf, c.vsshe, in); break;
				case HOOGH: ok = c.tmcg->TMCG_VerifyStackEquality_Hoogh(c.s, c.s2, c.vtmf, c.vrhe, in, out); break;
				case HOOGH_NI: ok = c.tmcg->TMCG_VerifyStackEquality_Hoogh_noninteractive(c.s, c.s2, c.vtmf, c.vrhe, in); break;
			}
		}
		catch (std::exception &e) { ok = false; }
	}
	int st = 0; waitpid(pid, &st, 0);
	total++;
	return ok;
}

// the private-coin interactive variants are not reachable through the stack API: direct statements as in tests/t-vrhe.cc,
// tests/t-vsshe.cc: E[i] = (g^R[i], h^R[i]) * e[src(i)]
typedef std::vector<std::pair<mpz_ptr, mpz_ptr> > pairvec;
static mpz_ptr fresh() { mpz_ptr t = new mpz_t(); mpz_init(t); return t; }
static bool run_direct(HooghSchoenmakersSkoricVillegasVRHE *vrhe, GrothVSSHE *vsshe, mpz_srcptr p, mpz_srcptr q, mpz_srcptr g, mpz_srcptr h,
	size_t n, bool rotation, size_t r, const std::vector<size_t> &pi)
{
	std::vector<mpz_ptr> R; pairvec e, E;
	for (size_t i = 0; i < n; i++) { R.push_back(fresh()); e.push_back(std::make_pair(fresh(), fresh())); E.push_back(std::make_pair(fresh(), fresh())); }
	for (size_t i = 0; i < n; i++) { mpz_set_ui(e[i].first, 1L); mpz_powm_ui(e[i].second, h, i + 1, p); }
	for (size_t i = 0; i < n; i++)
	{
		size_t src = rotation ? (i + n - r) % n : pi[i];
		tmcg_mpz_srandomm(R[i], q);
		mpz_powm(E[i].first, g, R[i], p); mpz_mul(E[i].first, E[i].first, e[src].first); mpz_mod(E[i].first, E[i].first, p);
		mpz_powm(E[i].second, h, R[i], p); mpz_mul(E[i].second, E[i].second, e[src].second); mpz_mod(E[i].second, E[i].second, p);
	}
	int v2p[2], p2v[2];
	if (pipe(v2p) < 0 || pipe(p2v) < 0) exit(2);
	pid_t pid = fork();
	if (pid == 0)
	{
		alarm(300);
		close(v2p[1]); close(p2v[0]);
		__gnu_cxx::stdio_filebuf<char> ib(v2p[0], std::ios::in), ob(p2v[1], std::ios::out);
		std::istream in(&ib); std::ostream out(&ob);
		if (rotation) vrhe->Prove_interactive(r, R, e, E, in, out); else vsshe->Prove_interactive(pi, R, e, E, in, out);
		out.flush();
		_exit(0);
	}
	close(v2p[0]); close(p2v[1]);
	bool ok = false;
	{
		__gnu_cxx::stdio_filebuf<char> ib(p2v[0], std::ios::in), ob(v2p[1], std::ios::out);
		std::istream in(&ib); std::ostream out(&ob);
		try { ok = rotation ? vrhe->Verify_interactive(e, E, in, out) : vsshe->Verify_interactive(e, E, in, out); } catch (std::exception &ex) { ok = false; }
	}
	int st = 0; waitpid(pid, &st, 0);
	total++;
	return ok;
}

int main(int, char **)
{
	if (!init_libTMCG()) return 2;
	read_trace();
	BarnettSmartVTMF_dlog *vtmf = new BarnettSmartVTMF_dlog(1024, 256, false); // small group: the driver runs on every check
	if (!vtmf->CheckGroup()) { printf("group generation failed\n"); return 2; }
	vtmf->KeyGenerationProtocol_GenerateKey();
	vtmf->KeyGenerationProtocol_Finalize();
	SchindelhauerTMCG *tmcg = new SchindelhauerTMCG(16, 1, 4); // 16 rounds of cut-and-choose, 1 player, 4 type bits
	HooghSchoenmakersSkoricVillegasVRHE *vrhe = new HooghSchoenmakersSkoricVillegasVRHE(vtmf->p, vtmf->q, vtmf->g, vtmf->h, 1024, 256);
	for (size_t n = 2; n <= 9; n++)
	{
		GrothVSSHE *vsshe = new GrothVSSHE(n, vtmf->p, vtmf->q, vtmf->k, vtmf->g, vtmf->h, TMCG_GROTH_L_E, 1024, 256);
		if (!vsshe->CheckGroup()) { printf("GrothVSSHE group failed for n = %zu\n", n); return 2; }
		Ctx c; c.tmcg = tmcg; c.vtmf = vtmf; c.vsshe = vsshe; c.vrhe = vrhe;
		for (size_t i = 0; i < n; i++) { VTMF_Card card; tmcg->TMCG_CreateOpenCard(card, vtmf, i % 16); c.s.push(card); }
		// rotations: every offset occurs with overwhelming probability within 6n draws; each drawn secret is proved
		std::vector<bool> seen(n, false);
		for (size_t draw = 0; draw < 6 * n; draw++)
		{
			c.ss.clear(); c.s2.clear(); c.cyclic = true;
			size_t off = tmcg->TMCG_CreateStackSecret(c.ss, true, n, vtmf);
			if (seen[off % n]) continue;
			seen[off % n] = true;
			tmcg->TMCG_MixStack(c.s, c.s2, c.ss, vtmf);
			Kind ks[] = { CUTNCHOOSE, HOOGH, HOOGH_NI };
			for (size_t j = 0; j < 3; j++)
				if (!run(c, ks[j])) FAIL("an honest %s proof of a ROTATION (n = %zu, offset %zu) is rejected", kname[ks[j]], n, off);
		}
		// permutations: three random ones per size
		for (size_t draw = 0; draw < 3; draw++)
		{
			c.ss.clear(); c.s2.clear(); c.cyclic = false;
			tmcg->TMCG_CreateStackSecret(c.ss, false, n, vtmf);
			tmcg->TMCG_MixStack(c.s, c.s2, c.ss, vtmf);
			Kind ks[] = { CUTNCHOOSE, GROTH, GROTH_NI };
			for (size_t j = 0; j < 3; j++)
				if (!run(c, ks[j])) FAIL("an honest %s proof of a SHUFFLE (n = %zu) is rejected", kname[ks[j]], n);
		}
		// private-coin interactive variants: every rotation offset, three permutations
		for (size_t r = 0; r < n; r++)
			if (!run_direct(vrhe, vsshe, vtmf->p, vtmf->q, vtmf->g, vtmf->h, n, true, r, std::vector<size_t>()))
				FAIL("an honest private-coin interactive ROTATION proof (n = %zu, r = %zu) is rejected", n, r);
		for (size_t draw = 0; draw < 3; draw++)
		{
			std::vector<size_t> pi;
			for (size_t i = 0; i < n; i++) pi.push_back(c.ss[i].first); // the last drawn permutation
			if (draw) { std::rotate(pi.begin(), pi.begin() + draw % n, pi.end()); }
			if (!run_direct(vrhe, vsshe, vtmf->p, vtmf->q, vtmf->g, vtmf->h, n, false, 0, pi))
				FAIL("an honest private-coin interactive SHUFFLE proof (n = %zu) is rejected", n);
		}
		delete vsshe;
	}
	printf("%d honest proofs run, %d rejected\n", total, bad);
	if (!bad) printf("REPLAY-OK\n");
	return bad ? 1 : 0;
}
