// Native replay for group C02_perm: the REAL random_permutation_fast /
// random_rotation of /repo/src/SchindelhauerTMCG.cc with libgcrypt's word
// source interposed.  Property evaluated natively (C02 + C07):
//  * result is a bijection on {0..n-1} / a cyclic shift by exactly the
//    reported offset;
//  * exactly n-1 (resp. 1) sampler words are consumed when every word is
//    already a residue, i.e. the moduli are n, n-1, .., 2 (resp. n);
//  * for n <= 6 the map draw-vector -> permutation is injective (n! vectors,
//    n! permutations: exact uniformity given uniform residues).
#include "replay_common.hh"
#include <gmp.h>
#include <gcrypt.h>
#include <set>
#include "libTMCG_config.h"
#include "libTMCG.hh"
void random_permutation_fast(const size_t n, std::vector<size_t> &pi);
size_t random_rotation(const size_t n, std::vector<size_t> &pi);

static std::vector<unsigned long> feed;
static size_t feed_pos = 0;
static unsigned long next_word()
{ unsigned long w = feed_pos < feed.size() ? feed[feed_pos] : 0; feed_pos++; return w; }
extern "C" void gcry_randomize(void *buf, size_t n, enum gcry_random_level)
{ unsigned long w = next_word(); memcpy(buf, &w, n < sizeof(w) ? n : sizeof(w)); }
extern "C" void gcry_create_nonce(void *buf, size_t n)
{ unsigned long w = next_word(); memcpy(buf, &w, n < sizeof(w) ? n : sizeof(w)); }

static int bad = 0;
static void report(const char *what, size_t n, const std::vector<unsigned long> &f)
{
	printf("REPLAY-FAIL %s n=%zu draws=[", what, n);
	for (size_t i = 0; i < f.size() && i < 16; i++) printf("%lu ", f[i]);
	printf("]\n");
	bad = 1;
}

static bool bijection(const std::vector<size_t> &pi, size_t n)
{
	if (pi.size() != n) return false;
	std::vector<int> seen(n, 0);
	for (size_t i = 0; i < n; i++) { if (pi[i] >= n || seen[pi[i]]) return false; seen[pi[i]] = 1; }
	return true;
}

static void perm_case(size_t n, const std::vector<unsigned long> &f, std::set<std::vector<size_t> > *image)
{
	std::vector<size_t> pi(3, 77); // used vector: the function must reset it
	feed = f; feed_pos = 0;
	random_permutation_fast(n, pi);
	if (!bijection(pi, n)) { report("permutation is not a bijection", n, f); return; }
	if (feed_pos != n - 1) report("number of sampler words differs from n-1 (moduli are not n..2)", n, f);
	if (image && !image->insert(pi).second) report("two draw vectors give the same permutation", n, f);
}

static void perm_exhaustive(size_t n)
{
	std::set<std::vector<size_t> > image;
	std::vector<unsigned long> f(n > 0 ? n - 1 : 0, 0);
	size_t count = 0;
	while (!bad)
	{
		perm_case(n, f, &image); count++;
		size_t i = 0;
		for (; i + 1 < n; i++) { if (++f[i] < n - i) break; f[i] = 0; }
		if (i + 1 >= n) break;
	}
	size_t fact = 1; for (size_t k = 2; k <= n; k++) fact *= k;
	if (!bad && (count != fact || image.size() != fact)) report("image of all draw vectors is not all n! permutations", n, f);
}

static void rot_case(size_t n, unsigned long r)
{
	std::vector<size_t> pi(2, 5);
	std::vector<unsigned long> f(1, r);
	feed = f; feed_pos = 0;
	size_t off = random_rotation(n, pi);
	if (pi.size() != n || off >= n) { report("rotation: size or offset out of range", n, f); return; }
	for (size_t k = 0; k < n; k++)
		if (pi[k] != (k + n - off) % n) { report("rotation is not the cyclic shift by the reported offset", n, f); return; }
	if (feed_pos != 1) report("rotation did not draw exactly one word", n, f);
	if (off != (n - r) % n) report("offset is not (n - draw) mod n", n, f);
}

int main(int, char **)
{
	std::vector<std::pair<std::string, std::string> > t = read_trace();
	for (size_t n = 1; n <= 6 && !bad; n++) perm_exhaustive(n);
	size_t big[] = { 7, 8, 13, 52, 64, 255, 256, 511, 512 };
	srand(12345);
	for (size_t b = 0; b < sizeof(big) / sizeof(big[0]) && !bad; b++)
		for (int rep = 0; rep < 20 && !bad; rep++)
		{
			size_t n = big[b];
			std::vector<unsigned long> f(n - 1);
			for (size_t i = 0; i + 1 < n; i++)
				f[i] = rep == 0 ? 0 : rep == 1 ? n - i - 1 : (unsigned long)rand() % (n - i);
			perm_case(n, f, NULL);
		}
	for (size_t n = 2; n <= 64 && !bad; n++)
		for (unsigned long r = 0; r < n && !bad; r++) rot_case(n, r);
	rot_case(512, 0); rot_case(512, 511); rot_case(512, 256);
	if (!bad) printf("REPLAY-OK\n");
	return bad;
}
