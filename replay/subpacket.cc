// Native replay for group C12_subpacket: the REAL SubpacketDecode of /repo/src
// fed with structure-aware subpacket areas (every length form with the count
// fields 0, 1, max, max+1, huge; truncation at every offset).  Each input runs
// in a forked child: a signal (SIGSEGV, SIGABRT, SIGFPE, SIGBUS) or a timeout
// is a violation of C12; a clean return value or a standard exception is not.
#include "replay_common.hh"
#include <libTMCG.hh>
#include <sys/wait.h>
#include <unistd.h>
typedef CallasDonnerhackeFinneyShawThayerRFC4880 PGP;
static int bad = 0, runs = 0;

static void run_one(const tmcg_openpgp_octets_t &input)
{
	runs++;
	pid_t pid = fork();
	if (pid == 0)
	{
		alarm(20);
		tmcg_openpgp_octets_t in(input);
		tmcg_openpgp_packet_ctx_t ctx;
		memset(&ctx, 0, sizeof(ctx));
		try { PGP::SubpacketDecode(in, 0, ctx); } catch (std::exception &e) { }
		_exit(0);
	}
	int st = 0;
	waitpid(pid, &st, 0);
	if (WIFSIGNALED(st))
	{
		printf("REPLAY-FAIL SubpacketDecode killed by signal %d on input (%zu octets):", WTERMSIG(st), input.size());
		for (size_t i = 0; i < input.size() && i < 16; i++) printf(" %02X", input[i]);
		printf("\n");
		bad++;
	}
}

int main(int, char **)
{
	if (!init_libTMCG()) return 2;
	read_trace();
	const unsigned char firsts[] = { 0, 1, 2, 5, 191, 192, 193, 223, 254, 255 };
	const unsigned char lens[][4] = { {0,0,0,0}, {0,0,0,1}, {0,0,0,2}, {0,0,0,9}, {0,0,1,0}, {0x7F,0xFF,0xFF,0xFF}, {0x80,0,0,0},
		{0xFF,0xFF,0xFF,0xFA}, {0xFF,0xFF,0xFF,0xFB}, {0xFF,0xFF,0xFF,0xFE}, {0xFF,0xFF,0xFF,0xFF} };
	const unsigned char types[] = { 0, 2, 3, 9, 11, 16, 20, 27, 32, 33, 37, 0x82, 0xFF };
	for (size_t f = 0; f < sizeof(firsts) && bad < 3; f++)
		for (size_t l = 0; l < sizeof(lens) / 4 && bad < 3; l++)
			for (size_t t = 0; t < sizeof(types) && bad < 3; t++)
				for (size_t body = 0; body <= 9 && bad < 3; body += 3)
				{
					tmcg_openpgp_octets_t in;
					in.push_back(firsts[f]);
					if (firsts[f] >= 192 && firsts[f] < 255) in.push_back(lens[l][3]);
					if (firsts[f] == 255) for (int k = 0; k < 4; k++) in.push_back(lens[l][k]);
					in.push_back(types[t]);
					for (size_t b = 0; b < body; b++) in.push_back((unsigned char)(b * 37 + 1));
					run_one(in);
					// truncation at every offset
					for (size_t cut = 0; cut < in.size() && bad < 3; cut++)
					{ tmcg_openpgp_octets_t c(in.begin(), in.begin() + cut); run_one(c); }
				}
	if (!bad) printf("REPLAY-OK %d inputs\n", runs);
	return bad ? 1 : 0;
}
