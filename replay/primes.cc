// Native replay for group C09_primes: the REAL prime generators of /repo/src/mpz_sprime.cc.
// Property evaluated (same as the contracts): every generated safe prime pair satisfies p = 2q+1 with both
// prime (50 Miller-Rabin rounds of GMP as the independent judge) and |q| >= the requested size, the additional
// congruence (7 mod 8 / 3 mod 4) where requested; Schnorr-type primes satisfy p = qk+1, k even, gcd(k,q) = 1,
// both prime, |p| >= psize, |q| >= qsize; ordinary primes are odd primes of the requested size.
#include "replay_common.hh"
#include <gmp.h>
#include <gcrypt.h>
#include <stdexcept>
#include "libTMCG_config.h"
#include "libTMCG.hh"

static int bad = 0;
static void fail(const char *fn, const char *what, mpz_srcptr p, mpz_srcptr q, mpz_srcptr k)
{
	gmp_printf("REPLAY-FAIL %s: %s p=%Zd q=%Zd k=%Zd\n", fn, what, p, q ? q : p, k ? k : p);
	bad = 1;
}
static bool prime(mpz_srcptr x) { return mpz_probab_prime_p(x, 50) != 0; }

typedef void (*safe_fn)(mpz_ptr, mpz_ptr, const unsigned long int, const unsigned long int);
static void check_safe(const char *name, safe_fn f, unsigned long qsize, int congr_c, int congr_d)
{
	mpz_t p, q, t;
	mpz_init(p), mpz_init(q), mpz_init(t);
	f(p, q, qsize, 8);
	mpz_mul_2exp(t, q, 1), mpz_add_ui(t, t, 1);
	if (mpz_cmp(t, p)) fail(name, "p != 2q+1", p, q, NULL);
	if (!prime(p)) fail(name, "p is composite", p, q, NULL);
	if (!prime(q)) fail(name, "q is composite", p, q, NULL);
	if (mpz_sizeinbase(q, 2) < qsize) fail(name, "q shorter than requested", p, q, NULL);
	if (congr_d && !mpz_congruent_ui_p(p, congr_c, congr_d)) fail(name, "additional congruence of p fails", p, q, NULL);
	mpz_clear(p), mpz_clear(q), mpz_clear(t);
}

int main(int argc, char **argv)
{
	if (!init_libTMCG()) { printf("init failed\n"); return 2; }
	const char *ob = argc > 1 ? argv[argc - 1] : "";
	(void)ob;
	for (unsigned long qs = 20; qs <= 44; qs += 4) // below ~18 bits the sieves reject every candidate (q is itself in the table)
	{
		for (int rep = 0; rep < 3; rep++)
		{
			check_safe("tmcg_mpz_sprime", tmcg_mpz_sprime, qs, 0, 0);
			check_safe("tmcg_mpz_smprime", tmcg_mpz_smprime, qs, 0, 0);
			check_safe("tmcg_mpz_sprime_naive", tmcg_mpz_sprime_naive, qs, 0, 0);
			check_safe("tmcg_mpz_smprime_naive", tmcg_mpz_smprime_naive, qs, 0, 0);
			check_safe("tmcg_mpz_sprime_noninc", tmcg_mpz_sprime_noninc, qs, 0, 0);
			check_safe("tmcg_mpz_sprime2g", tmcg_mpz_sprime2g, qs, 7, 8);
			// Blum prime factor
			{
				mpz_t p, q;
				mpz_init(p), mpz_init(q);
				tmcg_mpz_sprime3mod4(p, qs + 1, 8);
				if (!prime(p)) fail("tmcg_mpz_sprime3mod4", "p is composite", p, NULL, NULL);
				if (!mpz_congruent_ui_p(p, 3, 4)) fail("tmcg_mpz_sprime3mod4", "p != 3 mod 4", p, NULL, NULL);
				if (mpz_sizeinbase(p, 2) < qs + 1) fail("tmcg_mpz_sprime3mod4", "p shorter than requested", p, NULL, NULL);
				mpz_sub_ui(q, p, 1), mpz_tdiv_q_2exp(q, q, 1);
				if (!prime(q)) fail("tmcg_mpz_sprime3mod4", "(p-1)/2 is composite", p, q, NULL);
				mpz_clear(p), mpz_clear(q);
			}
			// Schnorr-type primes
			for (int pre = 0; pre < 2; pre++)
			{
				mpz_t p, q, k, t;
				mpz_init(p), mpz_init(q), mpz_init_set_ui(k, 3UL + rep), mpz_init(t);
				const char *name = pre ? "tmcg_mpz_lprime_prefix" : "tmcg_mpz_lprime";
				if (pre) tmcg_mpz_lprime_prefix(p, q, k, 3 * qs, qs, 8); else tmcg_mpz_lprime(p, q, k, 3 * qs, qs, 8);
				mpz_mul(t, q, k), mpz_add_ui(t, t, 1);
				if (mpz_cmp(t, p)) fail(name, "p != qk+1", p, q, k);
				if (mpz_odd_p(k)) fail(name, "k is odd", p, q, k);
				mpz_gcd(t, k, q);
				if (mpz_cmp_ui(t, 1)) fail(name, "gcd(k,q) != 1", p, q, k);
				if (!prime(p)) fail(name, "p is composite", p, q, k);
				if (!prime(q)) fail(name, "q is composite", p, q, k);
				if (mpz_sizeinbase(p, 2) < 3 * qs) fail(name, "p shorter than requested", p, q, k);
				if (mpz_sizeinbase(q, 2) < qs) fail(name, "q shorter than requested", p, q, k);
				mpz_clear(p), mpz_clear(q), mpz_clear(k), mpz_clear(t);
			}
			bool thrown = false;
			try { mpz_t p, q, k; mpz_init(p), mpz_init(q), mpz_init(k); tmcg_mpz_lprime(p, q, k, qs, qs, 8); }
			catch (std::invalid_argument &e) { thrown = true; }
			if (!thrown) { printf("REPLAY-FAIL tmcg_mpz_lprime: qsize >= psize not refused\n"); bad = 1; }
			// ordinary primes
			for (int ni = 0; ni < 2; ni++)
			{
				mpz_t p;
				mpz_init(p);
				const char *name = ni ? "tmcg_mpz_oprime_noninc" : "tmcg_mpz_oprime";
				if (ni) tmcg_mpz_oprime_noninc(p, qs, 8); else tmcg_mpz_oprime(p, qs, 8);
				if (!prime(p)) fail(name, "p is composite", p, NULL, NULL);
				if (mpz_even_p(p)) fail(name, "p is even", p, NULL, NULL);
				if (mpz_sizeinbase(p, 2) < qs) fail(name, "p shorter than requested", p, NULL, NULL);
				mpz_clear(p);
			}
		}
	}
	if (bad) return 1;
	printf("REPLAY-OK prime generators: all relations hold on the sampled sizes\n");
	return 0;
}
