// Native replay for group C12_ctor: the REAL stream constructors of /repo/src fed
// with structure-aware garbage (zero / negative / non-numeric / missing
// fields).  A signal in the forked child (SIGFPE from a zero modulus, SIGSEGV,
// SIGABRT) violates C12; an exception or an object whose CheckGroup() then
// fails is a clean refusal.
#include "replay_common.hh"
#include <libTMCG.hh>
#include <sys/wait.h>
#include <unistd.h>
static int bad = 0, runs = 0;
static int child(const std::string &txt, int which)
{
	pid_t pid = fork();
	if (pid == 0)
	{
		alarm(60);
		std::stringstream in(txt);
		try
		{
			if (which == 0) { BarnettSmartVTMF_dlog v(in, 16, 16, false, true); v.CheckGroup(); }
			else if (which == 1) { PedersenCommitmentScheme c(2, in, 16, 16); c.CheckGroup(); }
			else if (which == 2) { BarnettSmartVTMF_dlog_GroupQR v(in, 16, 16); v.CheckGroup(); }
		}
		catch (std::exception &e) { _exit(0); }
		_exit(0);
	}
	int st = 0; waitpid(pid, &st, 0); runs++;
	return WIFSIGNALED(st) ? WTERMSIG(st) : 0;
}
int main(int, char **)
{
	if (!init_libTMCG()) return 2;
	read_trace();
	const char *vals[] = { "0", "1", "2", "5", "23", "11", "-5", "-0", "zzzz!", "", "99999999999999999999999999999999" };
	const char *names[] = { "BarnettSmartVTMF_dlog(istream&)", "PedersenCommitmentScheme(n, istream&)", "BarnettSmartVTMF_dlog_GroupQR(istream&)" };
	size_t nv = sizeof(vals) / sizeof(vals[0]);
	for (int which = 0; which < 3; which++)
		for (size_t a = 0; a < nv && bad < 6; a++) for (size_t b = 0; b < nv && bad < 6; b += 2) for (size_t c = 0; c < nv && bad < 6; c += 3)
		{
			std::string t = std::string(vals[a]) + "\n" + vals[b] + "\n" + vals[c] + "\n2\n3\n4\n5\n";
			int sig = child(t, which);
			if (sig) { printf("REPLAY-FAIL %s killed by signal %d on stream \"%s|%s|%s|2|3|4|5\"\n", names[which], sig, vals[a], vals[b], vals[c]); bad++; }
			if (a == 0 && b == 0 && c == 0) { sig = child("", which); if (sig) { printf("REPLAY-FAIL %s killed by signal %d on the empty stream\n", names[which], sig); bad++; } }
		}
	if (!bad) printf("REPLAY-OK %d streams\n", runs);
	return bad ? 1 : 0;
}
