// Native bounded stand-in / replay for CallasDonnerhackeFinneyShawThayerRFC4880::SymmetricDecryptAEAD of /repo/src:
// the chunk size octet and the ciphertext come from the (untrusted) AEAD encrypted data packet.  Every accepted
// chunk size octet (0..21) and every ciphertext length up to a few chunks must end in a clean refusal or a result --
// never in a crash.  Each call runs in a forked child with the default 8 MiB stack; a signal violates C12.
#include "replay_common.hh"
#include <libTMCG.hh>
#include <sys/wait.h>
#include <sys/resource.h>
#include <unistd.h>
static int bad = 0;
#define FAIL(...) do { if (bad < 10) { printf("REPLAY-FAIL "); printf(__VA_ARGS__); printf("\n"); } bad++; } while (0)
static int run(const tmcg_openpgp_octets_t &in, tmcg_openpgp_byte_t chunksize, bool with_ad)
{
	pid_t pid = fork();
	if (pid == 0)
	{
		struct rlimit rl; rl.rlim_cur = rl.rlim_max = 8UL * 1024 * 1024; setrlimit(RLIMIT_STACK, &rl);
		alarm(120);
		tmcg_openpgp_secure_octets_t key; for (size_t i = 0; i < 32; i++) key.push_back(i);
		tmcg_openpgp_octets_t iv, ad, out; for (size_t i = 0; i < 16; i++) iv.push_back(i);
		if (with_ad) for (size_t i = 0; i < 4; i++) ad.push_back(0xC0 + i); // an SKESK-style call passes associated data
		gcry_error_t r = 1;
		try { r = CallasDonnerhackeFinneyShawThayerRFC4880::SymmetricDecryptAEAD(in, key, TMCG_OPENPGP_SKALGO_AES256, TMCG_OPENPGP_AEADALGO_OCB, chunksize, iv, ad, 0, out); }
		catch (std::exception &e) { _exit(2); }
		_exit(r ? 0 : 1);
	}
	int st = 0; waitpid(pid, &st, 0);
	if (WIFSIGNALED(st)) return 100 + WTERMSIG(st);
	return WEXITSTATUS(st);
}
int main(int, char **)
{
	if (!init_libTMCG()) return 2;
	read_trace();
	for (unsigned c = 0; c <= 22; c++)
	{
		size_t chunk = (size_t)1 << (c + 6);
		size_t lens[] = { 0, 1, 16, 17, 33, chunk + 16, chunk + 33, 2 * (chunk + 16) + 33 };
		for (size_t j = 0; j < sizeof(lens) / sizeof(lens[0]); j++)
		{
			if (lens[j] > ((size_t)1 << 26)) continue;
			tmcg_openpgp_octets_t in(lens[j], 0xA5);
			for (int ad = 0; ad < 2; ad++)
			{
				int r = run(in, c, ad);
				if (r >= 100) FAIL("SymmetricDecryptAEAD killed by signal %d: chunk size octet %u, %zu octets of ciphertext%s", r - 100, c, lens[j], ad ? ", with associated data" : "");
			}
		}
	}
	if (!bad) printf("REPLAY-OK\n"); else printf("%d deviations\n", bad);
	return bad ? 1 : 0;
}
