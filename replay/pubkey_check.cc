// Demonstration for seed C10b: TMCG_PublicKey::check() must refuse a key whose
// validity proof (NIZK) has fewer rounds than required in ANY of its stages.
//
// We generate an honest NIZK key, then (as the key owner, who knows p and q)
// shorten STAGE3 of the proof ("y is a non-residue") from TMCG_KEY_NIZK_STAGE3
// rounds to a single round and re-create the self-signature, so that everything
// else about the key (modulus, y, stages 1 and 2, self-signature) is perfectly
// valid.  STAGE3 is the last stage of the Fiat-Shamir chain, so its first round
// stays a correct proof round after truncation.
//
// exit 0: the reduced-round key is refused (correct behaviour)
// exit 1: the reduced-round key is accepted (property violated)
// exit 2: unexpected failure of a sanity step (should not happen)
#include <libTMCG.hh>
#include <iostream>
#include <sstream>
#include <vector>
#include <string>

static bool resign(TMCG_SecretKey &sec)
{
	// same procedure as at the end of TMCG_SecretKey::generate()
	std::ostringstream data, repl;
	data << sec.name << "|" << sec.email << "|" << sec.type << "|" <<
		sec.m << "|" << sec.y << "|" << sec.nizk << "|";
	sec.sig = "";
	sec.sig = sec.sign(data.str());
	repl << "ID" << TMCG_KEYID_SIZE << "^";
	size_t pos = sec.sig.find(repl.str());
	if (pos == sec.sig.npos)
		return false;
	sec.sig.replace(pos, (repl.str()).length() + TMCG_KEYID_SIZE, sec.keyid());
	TMCG_PublicKey pub(sec);
	return pub.verify(data.str(), sec.sig);
}

int main()
{
	if (!init_libTMCG())
	{
		std::cerr << "init_libTMCG() failed" << std::endl;
		return 2;
	}
	const unsigned long keysize = 1024; // small but fits PRab and SAEP paddings
	std::cout << "generating " << keysize << "-bit NIZK key ..." << std::endl;
	TMCG_SecretKey sec("Mallory", "mallory@example.org", keysize, true);
	{
		TMCG_PublicKey pub(sec);
		if (!sec.check() || !pub.check())
		{
			std::cerr << "SANITY: freshly generated key fails check()" <<
				std::endl;
			return 2;
		}
	}

	// split the proof "nzk^S1^..S1 values..^S2^..S2 values..^S3^..S3 values..^"
	std::vector<std::string> tok;
	{
		std::string s = sec.nizk;
		size_t ei;
		while ((ei = s.find('^')) != s.npos)
		{
			tok.push_back(s.substr(0, ei));
			s = s.substr(ei + 1);
		}
	}
	const size_t idx3 = 1 + 1 + TMCG_KEY_NIZK_STAGE1 + 1 + TMCG_KEY_NIZK_STAGE2;
	if ((tok.size() != (idx3 + 1 + TMCG_KEY_NIZK_STAGE3)) || (tok[0] != "nzk"))
	{
		std::cerr << "SANITY: unexpected proof layout (" << tok.size() <<
			" fields)" << std::endl;
		return 2;
	}

	int bad = 0;
	const size_t rounds[] = { 1, 16, TMCG_KEY_NIZK_STAGE3 - 1 };
	for (size_t t = 0; t < sizeof(rounds) / sizeof(rounds[0]); t++)
	{
		// keep stages 1 and 2 untouched, keep only the first rounds of stage 3
		TMCG_SecretKey weak(sec);
		std::ostringstream nz;
		for (size_t i = 0; i < idx3; i++)
			nz << tok[i] << "^";
		nz << rounds[t] << "^";
		for (size_t i = 0; i < rounds[t]; i++)
			nz << tok[idx3 + 1 + i] << "^";
		weak.nizk = nz.str();
		if (!resign(weak))
		{
			std::cerr << "SANITY: re-created self-signature does not verify" <<
				std::endl;
			return 2;
		}
		// go through the textual public key, as a peer would receive it
		std::ostringstream pubtext;
		TMCG_PublicKey wpub(weak);
		pubtext << wpub;
		TMCG_PublicKey peer;
		if (!peer.import(pubtext.str()))
		{
			std::cerr << "SANITY: import of weak public key failed" <<
				std::endl;
			return 2;
		}
		bool accepted = peer.check();
		std::cout << "key with " << rounds[t] << " of " <<
			TMCG_KEY_NIZK_STAGE3 << " required STAGE3 rounds: check() = " <<
			(accepted ? "ACCEPTED" : "refused") << std::endl;
		if (accepted)
			bad++;
	}
	if (bad)
	{
		std::cerr << "FAIL: TMCG_PublicKey::check() accepted " << bad <<
			" key(s) whose validity proof has fewer STAGE3 (y is non-residue)"
			" rounds than TMCG_KEY_NIZK_STAGE3" << std::endl;
		return 1;
	}
	std::cout << "OK: all reduced-round keys were refused" << std::endl;
	return 0;
}
