// Demonstration for a seeded defect in PacketLengthEncode().
//
// RFC 4880, section 4.2.2: new-format body lengths
//   0..191        one octet
//   192..8383     two octets, first octet in 192..223
//   8384..2^32-1  five octets (0xFF + four-octet scalar)
//   first octet 224..254 is a *Partial Body Length* header
//
// The program checks, for every length 0..70000,
//  (1) PacketLengthEncode() against an independent encoder written from the
//      RFC text, and PacketLengthDecode(PacketLengthEncode(n)) == n with no
//      partial flag,
// and for body lengths around the form boundaries
//  (2) that an emitted Literal Data packet and User ID packet have exactly the
//      header prescribed and decode (PacketDecode) back to the same body.
// Exit status 0 = conformant, 1 = mismatch found.
#include <libTMCG.hh>
#include <iostream>
#include <string>
#include <vector>
#include <cstring>

typedef CallasDonnerhackeFinneyShawThayerRFC4880 PGP;

static void ref_len(size_t n, tmcg_openpgp_octets_t &o)
{
	if (n <= 191)
		o.push_back(n);
	else if (n <= 8383)
	{
		o.push_back(((n - 192) >> 8) + 192);
		o.push_back((n - 192) & 0xFF);
	}
	else
	{
		o.push_back(0xFF);
		o.push_back((n >> 24) & 0xFF), o.push_back((n >> 16) & 0xFF);
		o.push_back((n >> 8) & 0xFF), o.push_back(n & 0xFF);
	}
}

static int bad = 0;

static void fail(const std::string &what, size_t n)
{
	if (bad < 10)
		std::cerr << "FAIL: " << what << " (length " << n << ")" << std::endl;
	bad++;
}

static void check_literal(size_t bodylen)
{
	// Literal packet body = 'b', 0, 4 octets time, data
	tmcg_openpgp_octets_t data, pkt, want;
	for (size_t i = 0; i < bodylen - 6; i++)
		data.push_back((i * 7 + 3) & 0xFF);
	PGP::PacketLitEncode(data, pkt);
	want.push_back(0xCB); // new format, tag 11
	ref_len(bodylen, want);
	if ((pkt.size() != want.size() + bodylen) ||
	    (memcmp(&pkt[0], &want[0], want.size()) != 0))
	{
		fail("Literal Data packet header is not what RFC 4880 prescribes",
			bodylen);
	}
	tmcg_openpgp_packet_ctx_t ctx;
	tmcg_openpgp_octets_t cur;
	tmcg_openpgp_notations_t notations;
	tmcg_openpgp_multiple_octets_t es, rf;
	tmcg_openpgp_octets_t in(pkt);
	tmcg_openpgp_byte_t r = PGP::PacketDecode(in, 0, ctx, cur, notations,
		es, rf);
	if ((r != 11) || (ctx.datalen != data.size()) || (in.size() != 0) ||
	    (memcmp(ctx.data, &data[0], data.size()) != 0))
	{
		fail("Literal Data packet does not round-trip through PacketDecode",
			bodylen);
	}
	PGP::PacketContextRelease(ctx);
}

static void check_uid(size_t bodylen)
{
	std::string uid(bodylen, 'u');
	tmcg_openpgp_octets_t pkt, want;
	PGP::PacketUidEncode(uid, pkt);
	want.push_back(0xCD); // new format, tag 13
	ref_len(bodylen, want);
	if ((pkt.size() != want.size() + bodylen) ||
	    (memcmp(&pkt[0], &want[0], want.size()) != 0))
	{
		fail("User ID packet header is not what RFC 4880 prescribes", bodylen);
	}
	tmcg_openpgp_packet_ctx_t ctx;
	tmcg_openpgp_octets_t cur;
	tmcg_openpgp_notations_t notations;
	tmcg_openpgp_multiple_octets_t es, rf;
	tmcg_openpgp_octets_t in(pkt);
	tmcg_openpgp_byte_t r = PGP::PacketDecode(in, 0, ctx, cur, notations,
		es, rf);
	if ((r != 13) || (ctx.uiddatalen != bodylen) || (in.size() != 0) ||
	    (memcmp(ctx.uiddata, uid.data(), bodylen) != 0))
	{
		fail("User ID packet does not round-trip through PacketDecode",
			bodylen);
	}
	PGP::PacketContextRelease(ctx);
}

int main()
{
	if (!init_libTMCG())
	{
		std::cerr << "init_libTMCG() failed" << std::endl;
		return 2;
	}
	// (1) every length up to 70000 and a few large ones
	std::vector<size_t> lens;
	for (size_t n = 0; n <= 70000; n++)
		lens.push_back(n);
	lens.push_back(16777215UL), lens.push_back(16777216UL);
	lens.push_back(4294967294UL), lens.push_back(4294967295UL);
	for (size_t k = 0; k < lens.size(); k++)
	{
		size_t n = lens[k];
		tmcg_openpgp_octets_t got, want;
		PGP::PacketLengthEncode(n, got);
		ref_len(n, want);
		if (got != want)
			fail("PacketLengthEncode differs from RFC 4880 section 4.2.2", n);
		uint32_t len = 0;
		bool partlen = false;
		size_t hl = PGP::PacketLengthDecode(got, true, 0, len, partlen);
		if ((hl != got.size()) || partlen || (len != n))
		{
			fail(partlen ? "emitted length header decodes as a PARTIAL body "
				"length" : "emitted length header decodes to another value", n);
		}
	}
	// (2) whole packets around the boundaries of the length forms
	const size_t b[] = { 190, 191, 192, 193, 8382, 8383, 8384, 8385, 8386,
		65535, 65536, 65537 };
	for (size_t k = 0; k < sizeof(b)/sizeof(b[0]); k++)
	{
		check_literal(b[k]);
		check_uid(b[k]);
	}
	if (bad)
	{
		std::cerr << bad << " check(s) failed: emitted OpenPGP length headers" <<
			" are not conformant / do not round-trip" << std::endl;
		return 1;
	}
	std::cout << "OK: all body-length forms conformant and round-trip" <<
		std::endl;
	return 0;
}
