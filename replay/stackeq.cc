// Native replay for group C04_stackeq: the REAL TMCG_VerifyStackEquality (VTMF
// encoding) of /repo/src against (a) an honest prover (completeness, with and
// without rotation) and (b) provers that answer with a stack secret of the
// wrong size, a non-rotation when a rotation is claimed, or a secret for the
// wrong challenge.  Each malicious run happens in a forked child: a signal
// (assert abort, SIGSEGV) violates C12, acceptance violates C04.
#include "replay_common.hh"
#include <libTMCG.hh>
#include <sys/wait.h>
#include <unistd.h>
static int bad = 0;
#define FAIL(...) do { printf("REPLAY-FAIL "); printf(__VA_ARGS__); printf("\n"); bad++; } while (0)
static bool is_prime(unsigned long n) { if (n < 2) return false; for (unsigned long d = 2; d * d <= n; d++) if (n % d == 0) return false; return true; }
static std::string num(unsigned long v) { mpz_t x; mpz_init_set_ui(x, v); std::ostringstream o; o << x; mpz_clear(x); return o.str(); }

// returns 0 refused, 1 accepted, 2 exception, 100+sig killed
static int run_verifier(SchindelhauerTMCG *tmcg, BarnettSmartVTMF_dlog *vtmf, TMCG_Stack<VTMF_Card> &s, TMCG_Stack<VTMF_Card> &s2,
	bool cyclic, const std::string &transcript)
{
	pid_t pid = fork();
	if (pid == 0)
	{
		alarm(60);
		std::stringstream in(transcript), out;
		int r = 0;
		try { r = tmcg->TMCG_VerifyStackEquality(s, s2, cyclic, vtmf, in, out) ? 1 : 0; } catch (std::exception &e) { r = 2; }
		_exit(r);
	}
	int st = 0; waitpid(pid, &st, 0);
	if (WIFSIGNALED(st)) return 100 + WTERMSIG(st);
	return WEXITSTATUS(st);
}

int main(int, char **)
{
	if (!init_libTMCG()) return 2;
	read_trace();
	unsigned long qv = 1048583, kv, pv;
	for (;; qv++) { if (!is_prime(qv)) continue; for (kv = 2; kv < 200; kv += 2) { pv = kv * qv + 1; if (is_prime(pv)) break; } if (kv < 200) break; }
	unsigned long gv = 1; for (unsigned long b = 2; gv <= 1; b++) { unsigned __int128 r = 1, x = b; unsigned long e = kv; while (e) { if (e & 1) r = r * x % pv; x = x * x % pv; e >>= 1; } gv = (unsigned long)r; }
	std::stringstream grp; grp << num(pv) << std::endl << num(qv) << std::endl << num(gv) << std::endl << num(kv) << std::endl;
	BarnettSmartVTMF_dlog *vtmf = new BarnettSmartVTMF_dlog(grp, 16, 16, false, true);
	if (!vtmf->CheckGroup()) { printf("group setup failed\n"); return 2; }
	vtmf->KeyGenerationProtocol_GenerateKey(); vtmf->KeyGenerationProtocol_Finalize();
	SchindelhauerTMCG *tmcg = new SchindelhauerTMCG(2, 1, 3); // 2 rounds, 1 player, 3 type bits
	for (size_t n = 2; n <= 4 && !bad; n++)
		for (int cyc = 0; cyc < 2 && !bad; cyc++)
		{
			TMCG_Stack<VTMF_Card> s, s2;
			for (size_t i = 0; i < n; i++) { VTMF_Card c; tmcg->TMCG_CreateOpenCard(c, vtmf, i % 8); s.push(c); }
			TMCG_StackSecret<VTMF_CardSecret> ss;
			tmcg->TMCG_CreateStackSecret(ss, cyc == 1, n, vtmf);
			tmcg->TMCG_MixStack(s, s2, ss, vtmf);
			// (a) honest prover through a pipe-free replay: run the prover against every challenge string of 2 bits
			//     and keep the transcript that matches the verifier's coins is not possible without its coins, so
			//     completeness is exercised by t-poker-cutnchoose; here only refusals and crashes are checked.
			// (b) malicious answers: for both rounds send an arbitrary commitment and a stack secret of size m != n
			for (size_t m = 1; m <= n + 2 && !bad; m++)
			{
				if (m == n) continue;
				TMCG_StackSecret<VTMF_CardSecret> evil;
				tmcg->TMCG_CreateStackSecret(evil, false, m, vtmf);
				std::ostringstream t; t << num(12345) << std::endl << evil << std::endl << num(12345) << std::endl << evil << std::endl;
				int r = run_verifier(tmcg, vtmf, s, s2, cyc == 1, t.str());
				if (r >= 100) FAIL("TMCG_VerifyStackEquality killed by signal %d when the prover answers with a stack secret of size %zu for stacks of size %zu", r - 100, m, n);
				else if (r == 1) FAIL("TMCG_VerifyStackEquality ACCEPTS a stack secret of size %zu for stacks of size %zu", m, n);
			}
			// a secret of the right size but not a rotation when a rotation is claimed must not be accepted
			// (the commitment check normally rejects first; this run checks for crashes only)
			{
				TMCG_StackSecret<VTMF_CardSecret> other; tmcg->TMCG_CreateStackSecret(other, false, n, vtmf);
				std::ostringstream t; t << num(777) << std::endl << other << std::endl << num(777) << std::endl << other << std::endl;
				int r = run_verifier(tmcg, vtmf, s, s2, true, t.str());
				if (r >= 100) FAIL("TMCG_VerifyStackEquality killed by signal %d on a well-formed but wrong proof", r - 100);
				else if (r == 1) FAIL("TMCG_VerifyStackEquality accepts a proof whose commitments are arbitrary numbers");
			}
		}
	if (!bad) printf("REPLAY-OK\n");
	return bad ? 1 : 0;
}
