// Native replay for group C12_pubkey: the REAL TMCG_PublicKey::import / verify of /repo/src fed with public
// keys of unusual modulus sizes (and zero / tiny moduli) and a well-formed signature text.  The check runs
// itself under valgrind (memcheck) so that heap overflows inside uninstrumented GMP are seen: an invalid
// read/write or a fatal signal violates C12, a clean 'false' does not.
#include "replay_common.hh"
#include <libTMCG.hh>
#include <unistd.h>
#include <sys/wait.h>
static int child(size_t bits)
{
	if (!init_libTMCG()) return 2;
	mpz_t m, y, v; mpz_init(m); mpz_init(y); mpz_init(v);
	if (bits == 0) mpz_set_ui(m, 0);
	else { mpz_ui_pow_ui(m, 2, bits - 1); mpz_add_ui(m, m, 12345); }
	mpz_set_ui(y, 7);
	std::ostringstream k; k << "pub|Eve|eve@example.org|TMCG/RABIN_" << bits << "_NIZK|" << m << "|" << y << "|nzk^0^0^|sig|ID8^00000000|" << (bits ? m : y) << "99999999|";
	TMCG_PublicKey key;
	if (!key.import(k.str())) return 0;
	std::string kid = key.keyid(8);
	mpz_ui_pow_ui(v, 3, bits + 7); if (bits) mpz_mod(v, v, m);
	std::ostringstream s; s << "sig|" << kid << "|" << v << "|";
	try { key.verify("some data", s.str()); } catch (std::exception &e) { }
	return 0;
}
static int zero_child(unsigned long multiple)
{
	if (!init_libTMCG()) return 2;
	// a fixed Blum-free toy modulus is enough: verify() only needs |m| and m (1027-bit odd number)
	mpz_t m, y, v; mpz_init(m); mpz_init(y); mpz_init(v);
	mpz_ui_pow_ui(m, 2, 1026); mpz_add_ui(m, m, 12345); mpz_set_ui(y, 7); // |m| = 1027 bits (verify refuses lengths that are multiples of 8)
	std::ostringstream k; k << "pub|Eve|eve@example.org|TMCG/RABIN_1027_NIZK|" << m << "|" << y << "|nzk^0^0^|sig|ID8^00000000|" << m << "99999999|";
	TMCG_PublicKey key;
	if (!key.import(k.str())) return 0;
	mpz_mul_ui(v, m, multiple);
	std::ostringstream s; s << "sig|" << key.keyid(8) << "|" << v << "|";
	bool r = false;
	try { r = key.verify("some data", s.str()); } catch (std::exception &e) { }
	return r ? 1 : 0;
}
int main(int argc, char **argv)
{
	if (argc > 2 && !strcmp(argv[1], "--child")) return child(strtoul(argv[2], NULL, 10));
	if (argc > 2 && !strcmp(argv[1], "--zero")) return zero_child(strtoul(argv[2], NULL, 10));
	read_trace();
	int bad = 0;
	size_t sizes[] = { 0, 8, 424, 2051, 8191, 8200, 8300, 10005, 16390 };
	for (size_t i = 0; i < sizeof(sizes) / sizeof(sizes[0]); i++)
	{
		char num[32]; snprintf(num, sizeof(num), "%zu", sizes[i]);
		pid_t pid = fork();
		if (pid == 0)
		{
			execlp("valgrind", "valgrind", "-q", "--error-exitcode=9", "--leak-check=no", argv[0], "--child", num, (char *)NULL);
			_exit(3);
		}
		int st = 0; waitpid(pid, &st, 0);
		if (WIFSIGNALED(st)) { printf("REPLAY-FAIL TMCG_PublicKey::verify killed by signal %d for a %zu-bit modulus\n", WTERMSIG(st), sizes[i]); bad++; }
		else if (WEXITSTATUS(st) == 3) { printf("valgrind not available\n"); return 2; }
		else if (WEXITSTATUS(st) != 0) { printf("REPLAY-FAIL TMCG_PublicKey::verify: memcheck reports an invalid memory access for a %zu-bit modulus (heap overflow in mpz_export)\n", sizes[i]); bad++; }
	}
	// a signature value that is 0 modulo m (0, m, 2m): mpz_export writes nothing for s^2 mod m = 0, the comparisons
	// then run on an uninitialised heap buffer (whatever an earlier call left there: after a genuine verification of
	// the same data the forged value can be accepted, depending on the allocator).  memcheck sees the uninitialised read.
	for (int multiple = 0; multiple < 3; multiple++)
	{
		char num[32]; snprintf(num, sizeof(num), "%d", multiple);
		pid_t pid = fork();
		if (pid == 0)
		{
			execlp("valgrind", "valgrind", "-q", "--error-exitcode=9", "--leak-check=no", argv[0], "--zero", num, (char *)NULL);
			_exit(3);
		}
		int st = 0; waitpid(pid, &st, 0);
		if (WIFSIGNALED(st)) { printf("REPLAY-FAIL TMCG_PublicKey::verify killed by signal %d on the signature value %d*m\n", WTERMSIG(st), multiple); bad++; }
		else if (WEXITSTATUS(st) == 9) { printf("REPLAY-FAIL TMCG_PublicKey::verify decides the signature value %d*m on UNINITIALISED heap memory (memcheck: use of uninitialised value; mpz_export writes nothing for 0)\n", multiple); bad++; }
		else if (WEXITSTATUS(st) == 1) { printf("REPLAY-FAIL TMCG_PublicKey::verify ACCEPTS the signature value %d*m\n", multiple); bad++; }
	}
	if (!bad) printf("REPLAY-OK\n");
	return bad ? 1 : 0;
}
